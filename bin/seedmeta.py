#!/usr/bin/env python3
"""Writes seeded/<ID>-<k>/meta.json from the agent's meta, my confirmation run and my check's output."""
import json, os, re, glob
here = os.path.dirname(os.path.dirname(os.path.abspath(__file__)))
for d in sorted(glob.glob(os.path.join(here, 'seeded', 'C*-*'))):
    name = os.path.basename(d)
    pid, k = name.split('-')
    agent = {}
    p = os.path.join(d, 'agent_meta.json')
    if os.path.exists(p):
        try:
            agent = json.load(open(p))
        except Exception:
            agent = {"raw": open(p).read()[:2000]}
    confirm = open(os.path.join(d, 'confirm.txt')).read().strip() if os.path.exists(os.path.join(d, 'confirm.txt')) else ''
    kv = dict(re.findall(r'(\w+)=(\S+)', confirm))
    checks = {}
    for tier in ('quick', 'thorough'):
        lp = os.path.join(d, f'check_{tier}.log')
        if os.path.exists(lp):
            txt = open(lp).read()
            viol = re.findall(r'^VIOLATION .*harness=(\S+) label="([^"]*)"', txt, re.M)
            summary = re.findall(r'^property=.*$', txt, re.M)
            checks[tier] = {"detected": bool(viol), "violations": [{"harness": h, "label": l} for h, l in viol][:6],
                            "summary": summary[-1] if summary else "", "inconclusive": len(re.findall(r'^INCONCLUSIVE', txt, re.M))}
    for lp in sorted(glob.glob(os.path.join(d, 'check_quick_C*.log'))):
        other = os.path.basename(lp)[len('check_quick_'):-4]
        txt = open(lp).read()
        viol = re.findall(r'^VIOLATION .*harness=(\S+) label="([^"]*)"', txt, re.M)
        checks['quick_by_' + other] = {"detected": bool(viol), "violations": [{"harness": h, "label": l} for h, l in viol][:6],
                                       "summary": (re.findall(r'^property=.*$', txt, re.M) or [""])[-1], "inconclusive": 0,
                                       "note": "the changed function belongs to the kernel of check %s" % other}
    meta = {
        "property": pid,
        "seed": name,
        "summary": agent.get("summary", ""),
        "needs_to_manifest": agent.get("needs", ""),
        "touched_packages": agent.get("touched_packages", []),
        "confirmed_by_me": {
            "what_i_ran": "bin/seedconfirm.sh %s %s  (in the sub-agent's scratch worktree: demo test without the change, demo test with it, go build ./..., go test of the touched packages with it)" % (pid, k),
            "demo_passes_without_change": kv.get("demo_without_exit") == "0",
            "demo_fails_with_change": kv.get("demo_with_exit", "0") != "0",
            "builds_with_change": kv.get("build_exit") == "0",
            "package_tests_pass_with_change": kv.get("pkgtests_with_exit") == "0",
            "packages_tested": kv.get("pkgs", ""),
            "demo": kv.get("run", ""), "demo_location": kv.get("place", ""),
        },
        "my_check": {"what_i_ran": "bin/seedcheck.sh %s %s [tier]  (git -C /repo apply patch.diff; bin/vcheck %s; git -C /repo checkout -- .) or, while /repo was busy with another run, bin/seedcheck_wt.sh %s %s (same engine and harnesses against a scratch worktree of /repo with the patch applied, VP_REPO_DIR)" % (pid, k, pid, pid, k), **checks},
        "agent_report": agent,
    }
    json.dump(meta, open(os.path.join(d, 'meta.json'), 'w'), indent=1)
    print(name, {t: c["detected"] for t, c in checks.items()}, "confirmed" if meta["confirmed_by_me"]["demo_fails_with_change"] and meta["confirmed_by_me"]["demo_passes_without_change"] else "UNCONFIRMED")
