#!/bin/bash
# seedconfirm.sh <ID> <k> : confirm a seeded change in its scratch worktree (demo passes without, fails with; package tests pass with)
id=$1; k=$2; wt=/tmp/wt/$id; sd=$wt/_seed/$k; out=/verif/seeded/$id-$k
mkdir -p $out; cp $sd/patch.diff $sd/demo_test.go $out/ 2>/dev/null; cp $sd/meta.json $out/agent_meta.json 2>/dev/null
cd $wt || exit 1
git checkout -q -- . ; 
place=$(grep -m1 -o 'place at: [^ ]*' $sd/demo_test.go | sed 's/place at: //')
pkgdir=$(dirname $place)
runname=$(grep -m1 -o '\-run [^ ]*' $sd/demo_test.go | sed 's/-run //' | tr -d "'\"")
[ -z "$runname" ] && runname=$(grep -m1 -o 'func Test[A-Za-z0-9_]*' $sd/demo_test.go | sed 's/func //')
cp $sd/demo_test.go $place
go test -vet=off -count=1 -run "$runname" ./$pkgdir/ > $out/demo_without.log 2>&1; without=$?
git apply $sd/patch.diff || { echo "patch does not apply" > $out/confirm.txt; rm -f $place; exit 1; }
go test -vet=off -count=1 -run "$runname" ./$pkgdir/ > $out/demo_with.log 2>&1; with=$?
rm -f $place
pkgs=$(git diff --name-only | xargs -n1 dirname | sort -u | sed 's|^|./|;s|$|/|' | tr '\n' ' ')
go build ./... > $out/build_with.log 2>&1; build=$?
go test -vet=off -count=1 $pkgs > $out/pkgtests_with.log 2>&1; pk=$?
git checkout -q -- .
echo "demo_without_exit=$without demo_with_exit=$with build_exit=$build pkgtests_with_exit=$pk pkgs=$pkgs run=$runname place=$place" > $out/confirm.txt
cat $out/confirm.txt
