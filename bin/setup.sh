#!/bin/bash
# Offline setup: build the engine and warm the two Go build caches used by the checks.
set -e
cd "$(dirname "$0")/.."
export GOPROXY=off GOSUMDB=off
(cd engine && PATH=/opt/veriftools/go1.26.8/bin:$PATH GOTOOLCHAIN=local GOFLAGS=-mod=mod go build -o ../bin/gosym .)
# warm export data for go/packages (go1.26.8) and the native test build cache (repo toolchain); failures here are not fatal
(cd /repo && PATH=/opt/veriftools/go1.26.8/bin:$PATH GOTOOLCHAIN=local GOFLAGS= go build ./tsdb/... ./promql/... ./storage/... ./model/... ./rules/... ./notifier/... ./util/... ./prompb/... >/dev/null 2>&1 || true)
(cd /repo && GOFLAGS= go test -vet=off -count=1 -run '^$' ./tsdb/... ./promql/ ./storage/... ./model/... ./rules/ ./notifier/ ./util/convertnhcb/ ./util/jsonutil/ ./prompb/... >/dev/null 2>&1 || true)
(cd /repo && GOFLAGS= go test -tags verif -vet=off -count=1 -run '^$' ./tsdb/ ./tsdb/agent/ ./tsdb/wlog/ >/dev/null 2>&1 || true)
echo setup done
