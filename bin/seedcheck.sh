#!/bin/bash
# seedcheck.sh <ID> <k> [tier] : apply the seeded change to /repo, run the check, revert
id=$1; k=$2; tier=${3:-quick}; out=/verif/seeded/$id-$k
cd /verif
git -C /repo diff --quiet || { echo "/repo not clean"; exit 2; }
git -C /repo apply $out/patch.diff || exit 2
bin/vcheck $id --tier $tier > $out/check_$tier.log 2>&1; rc=$?
git -C /repo checkout -- .
echo "exit=$rc"; grep -E "^(VIOLATION|KNOWN|INCONCLUSIVE|ENCODER|property=)" $out/check_$tier.log | cut -c1-300 | head -8
