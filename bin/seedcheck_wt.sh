#!/bin/bash
# seedcheck_wt.sh <ID> <k> [tier] : run the check against a scratch worktree of /repo with the seeded change applied
# (same engine, same harnesses, VP_REPO_DIR=<worktree>), leaving /repo and /verif/evidence untouched. Used when /repo is
# busy with another run; bin/seedcheck.sh is the apply-to-/repo variant.
id=$1; k=$2; tier=${3:-quick}; cid=${CHECK_ID:-$id}; out=/verif/seeded/$id-$k; wt=/tmp/wt/$id; vs=/tmp/vs/$id-$k
[ -d $wt ] || git -C /repo worktree add --detach $wt HEAD -q || exit 2
mkdir -p /tmp/vs; rsync -a --exclude .git --exclude seeded --exclude out --exclude evidence --exclude design_probes /verif/ $vs/
mkdir -p $vs/evidence
cd $wt && git checkout -q -- . && git apply $out/patch.diff || exit 2
VP_REPO_DIR=$wt $vs/bin/vcheck $cid --tier $tier > $out/check_${tier}${CHECK_ID:+_$CHECK_ID}.log 2>&1; rc=$?
git checkout -q -- .
rm -rf $vs
echo "$id-$k exit=$rc"; grep -E "^(VIOLATION|KNOWN|INCONCLUSIVE|ENCODER|property=)" $out/check_${tier}${CHECK_ID:+_$CHECK_ID}.log | cut -c1-300 | head -6
