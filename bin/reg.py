#!/usr/bin/env python3
"""reg.py claim <ID> <text> <note>  |  reg.py na <ID> <reason>  — edit the registry and regenerate MANIFEST.json"""
import json, os, subprocess, sys
here = os.path.dirname(os.path.dirname(os.path.abspath(__file__)))
cp, np_ = os.path.join(here, 'registry/checks.json'), os.path.join(here, 'registry/not_applicable.json')
checks, na = json.load(open(cp)), json.load(open(np_))
if sys.argv[1] == 'claim':
    checks[sys.argv[2]] = {"text": sys.argv[3], "note": sys.argv[4]}
elif sys.argv[1] == 'na':
    checks.pop(sys.argv[2], None)
    na[sys.argv[2]] = sys.argv[3]
json.dump(checks, open(cp, 'w'), indent=1, sort_keys=True)
json.dump(na, open(np_, 'w'), indent=1, sort_keys=True)
subprocess.check_call([os.path.join(here, 'bin/mkmanifest.py')])
