#!/usr/bin/env python3
"""Regenerates /verif/MANIFEST.json from registry/checks.json and registry/not_applicable.json."""
import json, os, sys
here = os.path.dirname(os.path.dirname(os.path.abspath(__file__)))
props = [json.loads(l) for l in open(os.path.join(here, 'properties.jsonl'))]
checks = json.load(open(os.path.join(here, 'registry', 'checks.json')))
na = json.load(open(os.path.join(here, 'registry', 'not_applicable.json')))
out_checks = []
claimed = set()
for p in props:
    c = checks.get(p['id'])
    if not c:
        continue
    claimed.add(p['id'])
    out_checks.append({
        "property_id": p['id'],
        "quick_cmd": f"bin/vcheck {p['id']} --tier quick",
        "thorough_cmd": f"bin/vcheck {p['id']} --tier thorough",
        "evidence_file": f"/verif/evidence/{p['id']}.json",
        "replay_cmd_template": f"bin/vreplay {p['id']} {{path}}",
        "engine": "gosym",
        "level_claimed": {"category": "model_checking", "text": c['text'], "design_ref": c.get('design_ref', f"DESIGN.md section 7, {p['id']}")},
        "level_note": c['note'],
        "technique": c.get('technique', "bounded symbolic execution of the real Go code (go/ssa) with SMT (z3) deciding every assertion and panic site"),
    })
out_na = []
for p in props:
    if p['id'] in claimed:
        continue
    reason = na.get(p['id'])
    if not reason:
        sys.exit(f"property {p['id']} is neither claimed nor listed as not applicable")
    out_na.append({"property_id": p['id'], "reason": reason})
m = {
    "version": 1,
    "setup_cmd": "bash bin/setup.sh",
    "hooks": {"guard": "verif", "enable": "harnesses, stubs and the vp runtime are injected as go/packages and `go test -overlay` overlays; the only hook in /repo is tsdb/wlog/verif_hook.go (build tag verif: a constructor for a WL over an in-memory segment file), used by the C03 (head appender log) and C48 (agent appender) harnesses via -tags verif",
              "baseline_off_cmd": "bash -c 'cd /repo && go build ./... && go test -vet=off -count=1 -timeout 25m ./...'",
              "source_commits": ["51c014983d"], "add_only": True},
    "engines": [{"name": "gosym", "path": "/verif/engine", "serves_properties": sorted(claimed),
                 "kind_free_text": "path-based symbolic executor for go/ssa (built from /repo's working tree on every run) emitting SMT-LIB2 to z3 4.8.12 / z3 5.1.0 / cvc5 --solve-bv-as-int; native replay and translator validation through go test -overlay"}],
    "checks": out_checks,
    "not_applicable": out_na,
    "notes": "Every check is `bin/vcheck <ID>`: loads the harness overlays under harness/<ID>/ into the package under test, symbolically executes the real functions, decides each assertion with the solver, replays counterexamples natively, validates solver-generated path witnesses against the native build, and writes evidence/<ID>.json. INCONCLUSIVE lines (exit 0) claim nothing; see DESIGN.md section 5.",
}
json.dump(m, open(os.path.join(here, 'MANIFEST.json'), 'w'), indent=1)
print(f"{len(out_checks)} checks, {len(out_na)} not applicable")
