#!/bin/bash
# sweep.sh <tier> <ids...> : run checks sequentially, print one summary line each
tier=$1; shift
for id in "$@"; do
  s=$(date +%s)
  out=$(bin/vcheck $id --tier $tier 2>&1)
  rc=$?
  e=$(( $(date +%s) - s ))
  echo "== $id tier=$tier exit=$rc ${e}s :: $(echo "$out" | grep '^property=' | tail -1 | cut -c1-200)"
  echo "$out" | grep -E '^(VIOLATION|INCONCLUSIVE|ENCODER|KNOWN)' | cut -c1-300 | head -6
done
