package main

// Incremental SMT solver process (z3 -in / cvc5 --incremental) driven over pipes.
// The assertion stack mirrors the path condition: one push level per pc entry.

import (
	"bufio"
	"fmt"
	"io"
	"os/exec"
	"strings"
	"time"
)

type Result int

const (
	Unsat Result = iota
	Sat
	Unknown
)

func (r Result) String() string { return [...]string{"unsat", "sat", "unknown"}[r] }

type SolverStats struct {
	Queries, Sat, Unsat, Unknown int
	Errors                       int
	SolverNS                     int64
	Restarts                     int
}

type Solver struct {
	kind      string // z3 | z3-new | cvc5-int
	tb        *TB
	cmd       *exec.Cmd
	in        io.WriteCloser
	out       *bufio.Reader
	lines     chan string
	levels    []*Term
	declAt    []([]string) // names declared at each level (index 0 = base)
	declared  map[string]bool
	timeoutMS int
	Stats     SolverStats
	lastErr   string
	dump      io.Writer
	checkedOK bool // the current stack (without extras) is known sat
}

func solverVersion(kind string) string {
	bin, args := "z3", []string{"--version"}
	switch kind {
	case "z3-new":
		bin = "z3-new"
	case "cvc5-int":
		bin = "cvc5"
	}
	out, err := exec.Command(bin, args...).Output()
	if err != nil {
		return kind + " (version unknown)"
	}
	s := strings.TrimSpace(string(out))
	if i := strings.IndexByte(s, '\n'); i >= 0 {
		s = s[:i]
	}
	return s
}

func NewSolver(kind string, tb *TB, timeoutMS int) (*Solver, error) {
	s := &Solver{kind: kind, tb: tb, timeoutMS: timeoutMS}
	if err := s.start(); err != nil {
		return nil, err
	}
	return s, nil
}

func (s *Solver) start() error {
	var cmd *exec.Cmd
	switch s.kind {
	case "z3":
		cmd = exec.Command("z3", "-in")
	case "z3-new":
		cmd = exec.Command("z3-new", "-in")
	case "cvc5-int":
		cmd = exec.Command("cvc5", "--incremental", "--solve-bv-as-int=sum", "--lang=smt2", "--produce-models",
			fmt.Sprintf("--tlimit-per=%d", s.timeoutMS))
	default:
		return fmt.Errorf("unknown solver kind %q", s.kind)
	}
	in, err := cmd.StdinPipe()
	if err != nil {
		return err
	}
	outp, err := cmd.StdoutPipe()
	if err != nil {
		return err
	}
	cmd.Stderr = cmd.Stdout
	if err := cmd.Start(); err != nil {
		return err
	}
	s.cmd, s.in = cmd, in
	s.out = bufio.NewReaderSize(outp, 1<<20)
	s.lines = make(chan string, 1024)
	go func(r *bufio.Reader, ch chan string) {
		for {
			line, err := r.ReadString('\n')
			if line != "" {
				ch <- strings.TrimRight(line, "\r\n")
			}
			if err != nil {
				close(ch)
				return
			}
		}
	}(s.out, s.lines)
	s.levels = nil
	s.declAt = [][]string{nil}
	s.declared = map[string]bool{}
	s.checkedOK = false
	if s.kind == "cvc5-int" {
		s.send("(set-logic ALL)")
	} else {
		s.send("(set-option :produce-models true)")
		s.send(fmt.Sprintf("(set-option :timeout %d)", s.timeoutMS))
	}
	return nil
}

func (s *Solver) Close() {
	if s.cmd != nil {
		s.in.Close()
		s.cmd.Process.Kill()
		s.cmd.Wait()
		s.cmd = nil
	}
}

func (s *Solver) restart() {
	s.Close()
	s.Stats.Restarts++
	if err := s.start(); err != nil {
		panic(err)
	}
}

func (s *Solver) send(str string) {
	if s.dump != nil {
		io.WriteString(s.dump, str+"\n")
	}
	io.WriteString(s.in, str)
	io.WriteString(s.in, "\n")
}

// readResponse reads one response: a single token line (sat/unsat/unknown/error) or a balanced s-expression.
func (s *Solver) readResponse() (string, bool) {
	deadline := time.After(time.Duration(s.timeoutMS)*time.Millisecond*2 + 10*time.Second)
	var sb strings.Builder
	depth := 0
	started := false
	for {
		select {
		case line, ok := <-s.lines:
			if !ok {
				return sb.String(), false
			}
			if strings.TrimSpace(line) == "" && !started {
				continue
			}
			started = true
			inStr, inBar := false, false
			for _, c := range line {
				switch {
				case inBar:
					if c == '|' {
						inBar = false
					}
				case inStr:
					if c == '"' {
						inStr = false
					}
				case c == '|':
					inBar = true
				case c == '"':
					inStr = true
				case c == '(':
					depth++
				case c == ')':
					depth--
				}
			}
			sb.WriteString(line)
			sb.WriteByte('\n')
			if depth <= 0 {
				return sb.String(), true
			}
		case <-deadline:
			return sb.String(), false
		}
	}
}

func (s *Solver) declareFor(t *Term) {
	var vars []*Term
	collectVars(t, map[*Term]bool{}, &vars)
	top := len(s.declAt) - 1
	for _, v := range vars {
		if !s.declared[v.name] {
			s.declared[v.name] = true
			s.declAt[top] = append(s.declAt[top], v.name)
			s.send(fmt.Sprintf("(declare-const %s %s)", smtSym(v.name), sortStr(v.w)))
		}
	}
	ufs := map[string]bool{}
	collectUFs(t, map[*Term]bool{}, ufs)
	for u := range ufs {
		key := "uf:" + u
		if !s.declared[key] {
			s.declared[key] = true
			s.declAt[top] = append(s.declAt[top], key)
			s.send(s.tb.ufs[u])
		}
	}
}

func (s *Solver) push() {
	s.send("(push 1)")
	s.declAt = append(s.declAt, nil)
}

func (s *Solver) pop(n int) {
	if n <= 0 {
		return
	}
	s.send(fmt.Sprintf("(pop %d)", n))
	for i := 0; i < n; i++ {
		top := len(s.declAt) - 1
		for _, nm := range s.declAt[top] {
			delete(s.declared, nm)
		}
		s.declAt = s.declAt[:top]
	}
}

func (s *Solver) sync(pc []*Term) {
	common := 0
	for common < len(s.levels) && common < len(pc) && s.levels[common] == pc[common] {
		common++
	}
	if common < len(s.levels) {
		s.pop(len(s.levels) - common)
		s.levels = s.levels[:common]
		// popping can only make the stack weaker: still sat if it was
	}
	for i := common; i < len(pc); i++ {
		s.push()
		s.declareFor(pc[i])
		s.send("(assert " + s.tb.SMT(pc[i]) + ")")
		s.levels = append(s.levels, pc[i])
		s.checkedOK = false
	}
}

// Check decides pc ∧ extra (extra may be nil). If want is non-nil and the result is sat,
// the values of those terms are returned (as uint64; Bool as 0/1; widths > 64 unsupported).
func (s *Solver) Check(pc []*Term, extra *Term, want []*Term) (Result, map[*Term]uint64) {
	if extra != nil && extra.IsFalse() {
		return Unsat, nil
	}
	for _, c := range pc {
		if c.IsFalse() {
			return Unsat, nil
		}
	}
	if extra != nil && extra.IsTrue() {
		extra = nil
	}
	s.sync(pc)
	if extra == nil && s.checkedOK && want == nil {
		return Sat, nil
	}
	t0 := time.Now()
	defer func() { s.Stats.SolverNS += time.Since(t0).Nanoseconds() }()
	if extra != nil {
		s.push()
		s.declareFor(extra)
		s.send("(assert " + s.tb.SMT(extra) + ")")
	}
	for _, w := range want {
		s.declareFor(w)
	}
	s.send("(check-sat)")
	s.Stats.Queries++
	resp, ok := s.readResponse()
	resp = strings.TrimSpace(resp)
	res := Unknown
	switch {
	case !ok:
		s.lastErr = "solver timeout/crash: " + resp
		s.Stats.Unknown++
		s.Stats.Errors++
		lv := s.levels
		s.restart()
		_ = lv
		return Unknown, nil
	case resp == "sat":
		res = Sat
		s.Stats.Sat++
	case resp == "unsat":
		res = Unsat
		s.Stats.Unsat++
	default:
		if strings.Contains(resp, "error") {
			s.Stats.Errors++
			s.lastErr = resp
		}
		s.Stats.Unknown++
	}
	var model map[*Term]uint64
	if res == Sat && len(want) > 0 {
		model = map[*Term]uint64{}
		// ask in chunks
		for i := 0; i < len(want); i += 64 {
			j := i + 64
			if j > len(want) {
				j = len(want)
			}
			var sb strings.Builder
			sb.WriteString("(get-value (")
			for _, w := range want[i:j] {
				sb.WriteString(s.tb.SMT(w))
				sb.WriteByte(' ')
			}
			sb.WriteString("))")
			s.send(sb.String())
			r, ok := s.readResponse()
			if !ok || strings.Contains(r, "(error") {
				s.lastErr = "get-value failed: " + r
				s.Stats.Errors++
				res = Unknown
				model = nil
				if !ok {
					s.restart()
					return Unknown, nil
				}
				break
			}
			vals := parseValues(r)
			if len(vals) != j-i {
				s.lastErr = fmt.Sprintf("get-value parse: got %d values for %d terms: %s", len(vals), j-i, r)
				s.Stats.Errors++
				res = Unknown
				model = nil
				break
			}
			for k, w := range want[i:j] {
				model[w] = vals[k]
			}
		}
	}
	if extra != nil {
		s.pop(1)
	} else if res == Sat {
		s.checkedOK = true
	}
	return res, model
}

// parseValues extracts the value of each (term value) pair of a get-value response, in order.
func parseValues(r string) []uint64 {
	// tokenise into s-expressions at depth 2: ((t v) (t v) ...)
	var vals []uint64
	depth := 0
	start := -1
	inBar := false
	for i := 0; i < len(r); i++ {
		c := r[i]
		if inBar {
			if c == '|' {
				inBar = false
			}
			continue
		}
		switch c {
		case '|':
			inBar = true
		case '(':
			depth++
			if depth == 2 {
				start = i
			}
		case ')':
			if depth == 2 && start >= 0 {
				pair := r[start+1 : i]
				vals = append(vals, parseLastValue(pair))
				start = -1
			}
			depth--
		}
	}
	return vals
}

func parseLastValue(pair string) uint64 {
	pair = strings.TrimSpace(pair)
	// value is the last token: #x.., #b.., true, false, or (_ bvN W)
	if strings.HasSuffix(pair, ")") {
		// (_ bv123 64)
		i := strings.LastIndex(pair, "(_ bv")
		if i >= 0 {
			var v uint64
			var w int
			fmt.Sscanf(pair[i:], "(_ bv%d %d)", &v, &w)
			return v
		}
		return 0
	}
	i := strings.LastIndexAny(pair, " \t\n")
	tok := pair[i+1:]
	switch {
	case tok == "true":
		return 1
	case tok == "false":
		return 0
	case strings.HasPrefix(tok, "#x"):
		var v uint64
		for _, c := range tok[2:] {
			v <<= 4
			switch {
			case c >= '0' && c <= '9':
				v |= uint64(c - '0')
			case c >= 'a' && c <= 'f':
				v |= uint64(c-'a') + 10
			case c >= 'A' && c <= 'F':
				v |= uint64(c-'A') + 10
			}
		}
		return v
	case strings.HasPrefix(tok, "#b"):
		var v uint64
		for _, c := range tok[2:] {
			v <<= 1
			if c == '1' {
				v |= 1
			}
		}
		return v
	}
	return 0
}

// oneShot decides the conjunction of terms in a fresh solver process (fallback after an unknown).
func oneShot(kind string, tb *TB, terms []*Term, want []*Term, timeoutS int) (Result, map[*Term]uint64) {
	var sb strings.Builder
	if kind == "cvc5" || kind == "cvc5-int" {
		sb.WriteString("(set-logic ALL)\n(set-option :produce-models true)\n")
	} else {
		sb.WriteString("(set-option :produce-models true)\n")
	}
	seen := map[*Term]bool{}
	var vars []*Term
	ufs := map[string]bool{}
	seenU := map[*Term]bool{}
	for _, t := range append(append([]*Term{}, terms...), want...) {
		collectVars(t, seen, &vars)
		collectUFs(t, seenU, ufs)
	}
	for _, v := range vars {
		fmt.Fprintf(&sb, "(declare-const %s %s)\n", smtSym(v.name), sortStr(v.w))
	}
	for u := range ufs {
		sb.WriteString(tb.ufs[u] + "\n")
	}
	for _, t := range terms {
		sb.WriteString("(assert " + tb.SMT(t) + ")\n")
	}
	sb.WriteString("(check-sat)\n")
	if len(want) > 0 {
		sb.WriteString("(get-value (")
		for _, w := range want {
			sb.WriteString(tb.SMT(w) + " ")
		}
		sb.WriteString("))\n")
	}
	var cmd *exec.Cmd
	switch kind {
	case "z3":
		cmd = exec.Command("z3", "-in", fmt.Sprintf("-T:%d", timeoutS))
	case "z3-new":
		cmd = exec.Command("z3-new", "-in", fmt.Sprintf("-T:%d", timeoutS))
	case "cvc5":
		cmd = exec.Command("cvc5", "--lang=smt2", "--produce-models", fmt.Sprintf("--tlimit=%d", timeoutS*1000))
	case "cvc5-int":
		cmd = exec.Command("cvc5", "--lang=smt2", "--produce-models", "--solve-bv-as-int=sum", fmt.Sprintf("--tlimit=%d", timeoutS*1000))
	default:
		return Unknown, nil
	}
	cmd.Stdin = strings.NewReader(sb.String())
	out, _ := cmd.CombinedOutput()
	s := strings.TrimSpace(string(out))
	if strings.Contains(s, "(error") && !strings.HasPrefix(s, "unsat") {
		return Unknown, nil
	}
	switch {
	case strings.HasPrefix(s, "unsat"):
		return Unsat, nil
	case strings.HasPrefix(s, "sat"):
		if len(want) == 0 {
			return Sat, nil
		}
		rest := strings.TrimSpace(strings.TrimPrefix(s, "sat"))
		vals := parseValues(rest)
		if len(vals) != len(want) {
			return Unknown, nil
		}
		m := map[*Term]uint64{}
		for i, w := range want {
			m[w] = vals[i]
		}
		return Sat, m
	}
	return Unknown, nil
}
