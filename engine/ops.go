package main

import (
	"fmt"
	"go/token"
	"go/types"
	"math"
	"unicode/utf8"

	"golang.org/x/tools/go/ssa"
)

func mathFloat64bits(f float64) uint64 { return math.Float64bits(f) }
func mathFloat32bits(f float32) uint32 { return math.Float32bits(f) }

var opaqueType = types.NewNamed(types.NewTypeName(token.NoPos, nil, "vpOpaque", nil), types.NewStruct(nil, nil), nil)
var errValType = types.NewNamed(types.NewTypeName(token.NoPos, nil, "vpError", nil), types.NewStruct(nil, nil), nil)
var runtimeErrType = types.NewNamed(types.NewTypeName(token.NoPos, nil, "vpRuntimeError", nil), types.NewStruct(nil, nil), nil)

func (in *Interp) unop(fr *frame, ins *ssa.UnOp) Value {
	x := in.get(fr, ins.X)
	switch ins.Op {
	case token.MUL:
		return in.load(in.ptr(x))
	case token.NOT:
		return in.tb.Not(x.(*Term))
	case token.SUB:
		b := under(ins.X.Type()).(*types.Basic)
		if isFloat(b) {
			return in.tb.FNeg(x.(*Term))
		}
		return in.tb.Neg(x.(*Term))
	case token.XOR:
		return in.tb.BNot(x.(*Term))
	case token.ARROW:
		ch, ok := x.(ChanV)
		if !ok {
			unsupp("receive from %T", x)
		}
		if ch.c == nil {
			unsupp("receive from nil channel (blocks forever)")
		}
		elem := under(ins.X.Type()).(*types.Chan).Elem()
		var v Value
		okv := false
		if len(ch.c.buf) > 0 {
			v = ch.c.buf[0]
			ch.c.buf = ch.c.buf[1:]
			okv = true
		} else if ch.c.closed {
			v = in.zero(elem)
		} else {
			unsupp("receive from empty channel (would block) in %s", fr.fn)
		}
		if ins.CommaOk {
			return TupleV{v, in.tb.Bool(okv)}
		}
		return v
	}
	unsupp("unop %v", ins.Op)
	return nil
}

func (in *Interp) binop(op token.Token, xt, yt types.Type, x, y Value) Value {
	if _, ok := x.(Poison); ok {
		return x
	}
	if _, ok := y.(Poison); ok {
		return y
	}
	tb := in.tb
	switch op {
	case token.EQL:
		return in.equal(xt, x, y)
	case token.NEQ:
		return tb.Not(in.equal(xt, x, y))
	}
	switch a := x.(type) {
	case *Term:
		b := y.(*Term)
		bt, ok := under(xt).(*types.Basic)
		if !ok {
			unsupp("binop %v on %v", op, xt)
		}
		if isFloat(bt) {
			switch op {
			case token.ADD:
				return tb.FArith(OpFAddRaw, a, b)
			case token.SUB:
				return tb.FArith(OpFSubRaw, a, b)
			case token.MUL:
				return tb.FArith(OpFMulRaw, a, b)
			case token.QUO:
				return tb.FArith(OpFDivRaw, a, b)
			case token.LSS:
				return tb.FLt(a, b)
			case token.LEQ:
				return tb.FLe(a, b)
			case token.GTR:
				return tb.FLt(b, a)
			case token.GEQ:
				return tb.FLe(b, a)
			}
			unsupp("float binop %v", op)
		}
		signed := isSigned(bt)
		switch op {
		case token.ADD:
			return tb.Add(a, b)
		case token.SUB:
			return tb.Sub(a, b)
		case token.MUL:
			return tb.Mul(a, b)
		case token.QUO, token.REM:
			in.check(tb.Eq(b, tb.BV(b.w, 0)), "integer divide by zero")
			switch {
			case op == token.QUO && signed:
				return tb.SDiv(a, b)
			case op == token.QUO:
				return tb.UDiv(a, b)
			case signed:
				return tb.SRem(a, b)
			default:
				return tb.URem(a, b)
			}
		case token.AND:
			if a.w == 0 {
				return tb.And(a, b)
			}
			return tb.BAnd(a, b)
		case token.OR:
			if a.w == 0 {
				return tb.Or(a, b)
			}
			return tb.BOr(a, b)
		case token.XOR:
			return tb.BXor(a, b)
		case token.AND_NOT:
			return tb.BAnd(a, tb.BNot(b))
		case token.SHL, token.SHR:
			ybt := under(yt).(*types.Basic)
			if isSigned(ybt) {
				in.check(tb.SLt(b, tb.BV(b.w, 0)), "negative shift amount")
			}
			// bring the count to the width of a, saturating
			var cnt *Term
			if b.w > a.w {
				big := tb.Not(tb.ULt(b, tb.BV(b.w, uint64(a.w))))
				cnt = tb.Ite(big, tb.BV(a.w, uint64(a.w)), tb.Extract(b, a.w-1, 0))
			} else {
				cnt = tb.ZExt(b, a.w)
			}
			if op == token.SHL {
				return tb.Shl(a, cnt)
			}
			if signed {
				return tb.AShr(a, cnt)
			}
			return tb.LShr(a, cnt)
		case token.LSS:
			if signed {
				return tb.SLt(a, b)
			}
			return tb.ULt(a, b)
		case token.LEQ:
			if signed {
				return tb.SLe(a, b)
			}
			return tb.ULe(a, b)
		case token.GTR:
			if signed {
				return tb.SLt(b, a)
			}
			return tb.ULt(b, a)
		case token.GEQ:
			if signed {
				return tb.SLe(b, a)
			}
			return tb.ULe(b, a)
		}
	case StrV:
		b := y.(StrV)
		switch op {
		case token.ADD:
			n := make([]*Term, 0, len(a.b)+len(b.b))
			n = append(n, a.b...)
			n = append(n, b.b...)
			return StrV{n}
		case token.LSS:
			return in.strLess(a, b, false)
		case token.LEQ:
			return in.strLess(a, b, true)
		case token.GTR:
			return in.strLess(b, a, false)
		case token.GEQ:
			return in.strLess(b, a, true)
		}
	}
	unsupp("binop %v on %T", op, x)
	return nil
}

// strLess: lexicographic a < b (or <= when orEq).
func (in *Interp) strLess(a, b StrV, orEq bool) *Term {
	tb := in.tb
	n := len(a.b)
	if len(b.b) < n {
		n = len(b.b)
	}
	// result when all common bytes equal
	var res *Term
	if orEq {
		res = tb.Bool(len(a.b) <= len(b.b))
	} else {
		res = tb.Bool(len(a.b) < len(b.b))
	}
	for i := n - 1; i >= 0; i-- {
		lt := tb.ULt(a.b[i], b.b[i])
		eq := tb.Eq(a.b[i], b.b[i])
		res = tb.Or(lt, tb.And(eq, res))
	}
	return res
}

func (in *Interp) strEqual(a, b StrV) *Term {
	if len(a.b) != len(b.b) {
		return in.tb.ff
	}
	res := in.tb.tt
	for i := range a.b {
		res = in.tb.And(res, in.tb.Eq(a.b[i], b.b[i]))
	}
	return res
}

// equal implements Go's == on comparable values (static type t).
func (in *Interp) equal(t types.Type, x, y Value) *Term {
	tb := in.tb
	switch a := x.(type) {
	case nil:
		return tb.Bool(y == nil)
	case *Term:
		b, ok := y.(*Term)
		if !ok {
			return tb.ff
		}
		if bt, ok := under(t).(*types.Basic); ok && isFloat(bt) {
			return tb.FEq(a, b)
		}
		if a.w != b.w {
			return tb.ff
		}
		return tb.Eq(a, b)
	case StrV:
		b, ok := y.(StrV)
		if !ok {
			return tb.ff
		}
		return in.strEqual(a, b)
	case Pointer:
		b, ok := y.(Pointer)
		if !ok {
			if _, isOp := y.(OpaqueV); isOp {
				return tb.ff
			}
			return tb.ff
		}
		if a.obj != b.obj || len(a.path) != len(b.path) {
			return tb.ff
		}
		for i := range a.path {
			if a.path[i] != b.path[i] {
				return tb.ff
			}
		}
		return tb.tt
	case OpaqueV:
		b, ok := y.(OpaqueV)
		if ok {
			return tb.Bool(a.tag == b.tag)
		}
		return tb.ff // opaque handles are never nil
	case SliceV:
		b := y.(SliceV)
		if a.obj != nil && b.obj != nil {
			unsupp("comparison of two non-nil slices")
		}
		return tb.Bool(a.obj == nil && b.obj == nil)
	case MapV:
		b := y.(MapV)
		return tb.Bool(a.m == b.m)
	case ChanV:
		b := y.(ChanV)
		return tb.Bool(a.c == b.c)
	case *ssa.Function:
		switch b := y.(type) {
		case *ssa.Function:
			return tb.Bool(a == b)
		default:
			return tb.Bool(a == nil && b == nil)
		}
	case *ClosureV:
		if f, ok := y.(*ssa.Function); ok && f == nil {
			return tb.ff
		}
		unsupp("comparison of closures")
	case *StructV:
		b := y.(*StructV)
		st := under(t).(*types.Struct)
		res := tb.tt
		for i := range a.f {
			if st.Field(i).Name() == "_" {
				continue
			}
			res = tb.And(res, in.equal(st.Field(i).Type(), a.f[i], b.f[i]))
		}
		return res
	case *ArrayV:
		b := y.(*ArrayV)
		et := under(t).(*types.Array).Elem()
		res := tb.tt
		for i := range a.e {
			res = tb.And(res, in.equal(et, a.e[i], b.e[i]))
		}
		return res
	case IfaceV:
		b, ok := y.(IfaceV)
		if !ok {
			return tb.ff
		}
		if a.t == nil || b.t == nil {
			return tb.Bool(a.t == nil && b.t == nil)
		}
		if a.t == errValType || b.t == errValType || a.t == runtimeErrType || b.t == runtimeErrType {
			ea, _ := a.v.(*ErrV)
			eb, _ := b.v.(*ErrV)
			return tb.Bool(ea != nil && ea == eb)
		}
		if a.t == opaqueType || b.t == opaqueType {
			oa, oka := a.v.(OpaqueV)
			ob, okb := b.v.(OpaqueV)
			return tb.Bool(oka && okb && oa.tag == ob.tag)
		}
		if !types.Identical(a.t, b.t) {
			return tb.ff
		}
		if !types.Comparable(a.t) {
			msg := fmt.Sprintf("comparing uncomparable type %v", a.t)
			panic(&goPanic{msg: msg, v: IfaceV{t: runtimeErrType, v: &ErrV{msg: msg}}})
		}
		return in.equal(a.t, a.v, b.v)
	case *ErrV:
		b, ok := y.(*ErrV)
		return tb.Bool(ok && a == b)
	}
	unsupp("equality on %T", x)
	return nil
}

func (in *Interp) convert(dst, src types.Type, x Value) Value {
	if _, ok := x.(Poison); ok {
		return x
	}
	tb := in.tb
	ud, us := under(dst), under(src)
	switch d := ud.(type) {
	case *types.Basic:
		if d.Kind() == types.UnsafePointer {
			return x // pointer kept as is
		}
		if d.Info()&types.IsString != 0 {
			switch s := us.(type) {
			case *types.Basic:
				if s.Info()&types.IsString != 0 {
					return x
				}
				if s.Info()&types.IsInteger != 0 { // string(rune)
					t := x.(*Term)
					if !t.IsConst() {
						unsupp("string(symbolic rune)")
					}
					return in.strConst(string(rune(sext64(t.v, t.w))))
				}
			case *types.Slice:
				sv := x.(SliceV)
				if eb, ok := under(s.Elem()).(*types.Basic); ok && eb.Kind() == types.Uint8 {
					el := in.sliceElems(sv)
					b := make([]*Term, len(el))
					for i, e := range el {
						b[i] = e.(*Term)
					}
					return StrV{b}
				}
				// []rune
				el := in.sliceElems(sv)
				var out []byte
				for _, e := range el {
					t := e.(*Term)
					if !t.IsConst() {
						unsupp("string([]rune) with symbolic runes")
					}
					out = utf8.AppendRune(out, rune(sext64(t.v, t.w)))
				}
				return in.strConst(string(out))
			}
			unsupp("conversion %v -> string", src)
		}
		s, ok := us.(*types.Basic)
		if !ok {
			if _, isPtr := us.(*types.Pointer); isPtr && d.Kind() == types.Uintptr {
				unsupp("pointer -> uintptr conversion")
			}
			unsupp("conversion %v -> %v", src, dst)
		}
		if s.Kind() == types.UnsafePointer {
			unsupp("unsafe.Pointer -> %v", dst)
		}
		t := x.(*Term)
		dw := basicWidth(d)
		switch {
		case isFloat(d) && isFloat(s):
			return tb.FToF(t, dw)
		case isFloat(d):
			return tb.FFromInt(t, isSigned(s), dw)
		case isFloat(s):
			return tb.FToInt(t, isSigned(d), dw)
		default:
			if dw <= 0 || t.w == 0 {
				if dw == 0 && t.w == 0 {
					return t
				}
				unsupp("conversion %v -> %v", src, dst)
			}
			return tb.Resize(t, dw, isSigned(s))
		}
	case *types.Slice:
		if s, ok := us.(*types.Basic); ok && s.Info()&types.IsString != 0 {
			sv := x.(StrV)
			eb := under(d.Elem()).(*types.Basic)
			if eb.Kind() == types.Uint8 {
				vals := make([]Value, len(sv.b))
				for i, b := range sv.b {
					vals[i] = b
				}
				if len(vals) == 0 {
					return in.makeSlice(d.Elem(), 0, 0)
				}
				return in.sliceFromValues(vals)
			}
			str, ok := sv.concrete()
			if !ok {
				unsupp("[]rune(symbolic string)")
			}
			var vals []Value
			for _, r := range str {
				vals = append(vals, tb.BV(32, uint64(r)))
			}
			return in.sliceFromValues(vals)
		}
		return x
	case *types.Pointer:
		// unsafe.Pointer -> *T: keep the pointer; typed access must match the object's shape
		return x
	}
	return x
}

// ---- range / maps ----

func (in *Interp) rangeIter(x Value) Value {
	switch v := x.(type) {
	case StrV:
		return &RangeIter{str: &v}
	case MapV:
		it := &RangeIter{}
		if v.m != nil {
			it.m = v.m
			it.keys = append([]mapEntry(nil), v.m.entries...)
		}
		return it
	}
	unsupp("range over %T", x)
	return nil
}

func (in *Interp) next(ins *ssa.Next, it *RangeIter) Value {
	tb := in.tb
	if ins.IsString {
		s := it.str.b
		if it.pos >= len(s) {
			return TupleV{tb.ff, tb.BV(64, 0), tb.BV(32, 0)}
		}
		// decode one rune; symbolic bytes must be ASCII on this path
		b0 := s[it.pos]
		if !b0.IsConst() {
			if !in.fork(tb.ULt(b0, tb.BV(8, 0x80))) {
				unsupp("range over string with symbolic non-ASCII bytes")
			}
			r := TupleV{tb.tt, tb.BV(64, uint64(it.pos)), tb.ZExt(b0, 32)}
			it.pos++
			return r
		}
		var buf []byte
		for k := it.pos; k < len(s) && k < it.pos+4; k++ {
			if !s[k].IsConst() {
				break
			}
			buf = append(buf, byte(s[k].v))
		}
		r, size := utf8.DecodeRune(buf)
		res := TupleV{tb.tt, tb.BV(64, uint64(it.pos)), tb.BV(32, uint64(r))}
		it.pos += size
		return res
	}
	mt := under(ins.Iter.(*ssa.Range).X.Type()).(*types.Map)
	for it.pos < len(it.keys) {
		e := it.keys[it.pos]
		it.pos++
		// skip entries deleted since the iterator was created
		if idx := in.mapFindExact(it.m, e.k); idx >= 0 {
			return TupleV{tb.tt, e.k, it.m.entries[idx].v}
		}
	}
	return TupleV{tb.ff, in.zero(mt.Key()), in.zero(mt.Elem())}
}

func sameKeyIdentity(a, b Value) bool {
	switch x := a.(type) {
	case *Term:
		y, ok := b.(*Term)
		return ok && x == y
	case StrV:
		y, ok := b.(StrV)
		if !ok || len(x.b) != len(y.b) {
			return false
		}
		for i := range x.b {
			if x.b[i] != y.b[i] {
				return false
			}
		}
		return true
	}
	return false
}

func (in *Interp) mapFindExact(m *MapObj, k Value) int {
	for i, e := range m.entries {
		if sameKeyIdentity(e.k, k) {
			return i
		}
		if c := in.keyEq(e.k, k); c.IsTrue() {
			return i
		}
	}
	return -1
}

func (in *Interp) keyEq(a, b Value) *Term {
	switch x := a.(type) {
	case IfaceV:
		y, ok := b.(IfaceV)
		if !ok {
			return in.tb.ff
		}
		return in.equal(nil, x, y)
	case *StructV, *ArrayV:
		return in.equalUntyped(a, b)
	}
	return in.equal(types.Typ[types.Int], a, b)
}

// equalUntyped compares aggregate map keys structurally (floats inside keys are compared by bits, documented limitation).
func (in *Interp) equalUntyped(a, b Value) *Term {
	tb := in.tb
	switch x := a.(type) {
	case *StructV:
		y := b.(*StructV)
		res := tb.tt
		for i := range x.f {
			res = tb.And(res, in.equalUntyped(x.f[i], y.f[i]))
		}
		return res
	case *ArrayV:
		y := b.(*ArrayV)
		res := tb.tt
		for i := range x.e {
			res = tb.And(res, in.equalUntyped(x.e[i], y.e[i]))
		}
		return res
	case IfaceV:
		return in.equal(nil, a, b)
	}
	return in.equal(types.Typ[types.Int], a, b)
}

// mapFind returns the index of key k (forking on symbolic key equality), or -1.
func (in *Interp) mapFind(m *MapObj, k Value) int {
	if m == nil {
		return -1
	}
	for i, e := range m.entries {
		c := in.keyEq(e.k, k)
		if c.IsFalse() {
			continue
		}
		if c.IsTrue() || in.fork(c) {
			return i
		}
	}
	return -1
}

func (in *Interp) mapSet(m *MapObj, k, v Value) {
	if i := in.mapFind(m, k); i >= 0 {
		m.entries[i].v = copyVal(v)
		return
	}
	m.entries = append(m.entries, mapEntry{copyVal(k), copyVal(v)})
}

func (in *Interp) mapDelete(m *MapObj, k Value) {
	if i := in.mapFind(m, k); i >= 0 {
		m.entries = append(m.entries[:i:i], m.entries[i+1:]...)
	}
}

func (in *Interp) lookup(fr *frame, ins *ssa.Lookup) Value {
	x := in.get(fr, ins.X)
	k := in.get(fr, ins.Index)
	switch m := x.(type) {
	case MapV:
		mt := under(ins.X.Type()).(*types.Map)
		i := in.mapFind(m.m, k)
		var v Value
		if i >= 0 {
			v = copyVal(m.m.entries[i].v)
		} else {
			v = in.zero(mt.Elem())
		}
		if ins.CommaOk {
			return TupleV{v, in.tb.Bool(i >= 0)}
		}
		return v
	case StrV: // string index via Lookup
		idx := in.toInt64(k.(*Term), ins.Index.Type())
		i := in.boundedIndex(idx, len(m.b))
		return m.b[i]
	}
	unsupp("lookup on %T", x)
	return nil
}

// ---- builtins ----

func (in *Interp) callBuiltin(fr *frame, b *ssa.Builtin, args []Value, site ssa.Instruction) Value {
	tb := in.tb
	switch b.Name() {
	case "len":
		switch x := args[0].(type) {
		case StrV:
			return tb.BV(64, uint64(len(x.b)))
		case SliceV:
			return tb.BV(64, uint64(x.len))
		case MapV:
			if x.m == nil {
				return tb.BV(64, 0)
			}
			return tb.BV(64, uint64(len(x.m.entries)))
		case ChanV:
			if x.c == nil {
				return tb.BV(64, 0)
			}
			return tb.BV(64, uint64(len(x.c.buf)))
		case *ArrayV:
			return tb.BV(64, uint64(len(x.e)))
		case Pointer: // *array
			n := under(deref(b.Type().(*types.Signature).Params().At(0).Type())).(*types.Array).Len()
			return tb.BV(64, uint64(n))
		}
	case "cap":
		switch x := args[0].(type) {
		case SliceV:
			return tb.BV(64, uint64(x.cap))
		case ChanV:
			if x.c == nil {
				return tb.BV(64, 0)
			}
			return tb.BV(64, uint64(x.c.cap))
		case *ArrayV:
			return tb.BV(64, uint64(len(x.e)))
		case Pointer:
			n := under(deref(b.Type().(*types.Signature).Params().At(0).Type())).(*types.Array).Len()
			return tb.BV(64, uint64(n))
		}
	case "append":
		dst := args[0].(SliceV)
		var add []Value
		switch s := args[1].(type) {
		case SliceV:
			add = append(add, in.sliceElems(s)...)
		case StrV:
			for _, t := range s.b {
				add = append(add, t)
			}
		}
		if len(add) == 0 {
			return dst
		}
		for i := range add {
			add[i] = copyVal(add[i])
		}
		if dst.obj != nil && dst.len+len(add) <= dst.cap {
			arr := in.sliceArray(dst)
			copy(arr.e[dst.off+dst.len:], add)
			dst.len += len(add)
			return dst
		}
		newLen := dst.len + len(add)
		newCap := growCap(dst.cap, newLen)
		vals := make([]Value, newCap)
		old := in.sliceElems(dst)
		for i, v := range old {
			vals[i] = copyVal(v)
		}
		copy(vals[len(old):], add)
		if newCap > newLen {
			et := under(b.Type().(*types.Signature).Params().At(0).Type()).(*types.Slice).Elem()
			z := in.zero(et)
			for i := newLen; i < newCap; i++ {
				vals[i] = copyVal(z)
			}
		}
		return SliceV{obj: in.newObject(&ArrayV{e: vals}, "append"), len: newLen, cap: newCap}
	case "copy":
		dst := args[0].(SliceV)
		var src []Value
		switch s := args[1].(type) {
		case SliceV:
			src = append(src, in.sliceElems(s)...) // snapshot: memmove semantics
		case StrV:
			for _, t := range s.b {
				src = append(src, t)
			}
		}
		n := dst.len
		if len(src) < n {
			n = len(src)
		}
		if n > 0 {
			arr := in.sliceArray(dst)
			for i := 0; i < n; i++ {
				arr.e[dst.off+i] = copyVal(src[i])
			}
		}
		return tb.BV(64, uint64(n))
	case "delete":
		m := args[0].(MapV)
		if m.m != nil {
			in.mapDelete(m.m, args[1])
		}
		return nil
	case "clear":
		switch x := args[0].(type) {
		case MapV:
			if x.m != nil {
				x.m.entries = nil
			}
		case SliceV:
			if x.len > 0 {
				et := under(b.Type().(*types.Signature).Params().At(0).Type()).(*types.Slice).Elem()
				arr := in.sliceArray(x)
				for i := 0; i < x.len; i++ {
					arr.e[x.off+i] = in.zero(et)
				}
			}
		}
		return nil
	case "min", "max":
		isMin := b.Name() == "min"
		pt := b.Type().(*types.Signature).Params().At(0).Type()
		bt := under(pt).(*types.Basic)
		res := args[0]
		for _, a := range args[1:] {
			switch r := res.(type) {
			case *Term:
				y := a.(*Term)
				if isFloat(bt) {
					// NaN propagates; -0 < +0 for min/max builtins
					anyNaN := tb.Or(tb.FIsNaN(r), tb.FIsNaN(y))
					var pick *Term
					less := tb.Or(tb.FLt(y, r), tb.And(tb.And(tb.FIsZero(r), tb.FIsZero(y)), tb.And(tb.fSign(y), tb.Not(tb.fSign(r)))))
					if !isMin {
						less = tb.Or(tb.FLt(r, y), tb.And(tb.And(tb.FIsZero(r), tb.FIsZero(y)), tb.And(tb.fSign(r), tb.Not(tb.fSign(y)))))
					}
					pick = tb.Ite(less, y, r)
					nan := tb.Ite(tb.FIsNaN(r), r, y)
					res = tb.Ite(anyNaN, nan, pick)
				} else {
					var less *Term
					if isSigned(bt) {
						less = tb.SLt(y, r)
					} else {
						less = tb.ULt(y, r)
					}
					if !isMin {
						if isSigned(bt) {
							less = tb.SLt(r, y)
						} else {
							less = tb.ULt(r, y)
						}
					}
					res = tb.Ite(less, y, r)
				}
			case StrV:
				y := a.(StrV)
				var c *Term
				if isMin {
					c = in.strLess(y, r, false)
				} else {
					c = in.strLess(r, y, false)
				}
				if in.fork(c) {
					res = y
				}
			}
		}
		return res
	case "panic":
		panic(&goPanic{v: args[0], msg: in.panicMsg(args[0])})
	case "recover":
		if fr != nil && fr.caller != nil && fr.caller.panicking {
			p := fr.caller.panicVal
			fr.caller.panicking = false
			if p.v == nil {
				return IfaceV{t: runtimeErrType, v: &ErrV{msg: p.msg}}
			}
			return p.v
		}
		return IfaceV{}
	case "print", "println":
		return nil
	case "close":
		ch := args[0].(ChanV)
		if ch.c == nil {
			in.goPanicRuntime("close of nil channel")
		}
		ch.c.closed = true
		return nil
	case "SliceData": // unsafe.SliceData
		s := args[0].(SliceV)
		if s.obj == nil {
			return Pointer{}
		}
		return Pointer{s.obj, extendPath(s.path, s.off)}
	case "StringData": // unsafe.StringData
		s := args[0].(StrV)
		vals := make([]Value, len(s.b))
		for i, t := range s.b {
			vals[i] = t
		}
		obj := in.newObject(&ArrayV{e: vals}, "stringdata")
		return Pointer{obj, []int{0}}
	case "String", "Slice": // unsafe.String(ptr, len), unsafe.Slice(ptr, len)
		n := in.concInt(args[1], "unsafe."+b.Name()+" length")
		p, ok := args[0].(Pointer)
		if !ok {
			unsupp("unsafe.%s on %T", b.Name(), args[0])
		}
		if p.obj == nil {
			if n != 0 {
				in.goPanicRuntime("unsafe." + b.Name() + ": ptr is nil and len is not zero")
			}
			if b.Name() == "String" {
				return StrV{}
			}
			return SliceV{}
		}
		if len(p.path) == 0 {
			unsupp("unsafe.%s on a pointer that is not an array element", b.Name())
		}
		base, idx := p.path[:len(p.path)-1], p.path[len(p.path)-1]
		_, _, cur := in.resolve(Pointer{p.obj, base})
		arr, isArr := cur.(*ArrayV)
		if !isArr || idx+n > len(arr.e) {
			unsupp("unsafe.%s beyond the underlying array", b.Name())
		}
		if b.Name() == "Slice" {
			return SliceV{obj: p.obj, path: base, off: idx, len: n, cap: n}
		}
		out := make([]*Term, n)
		for i := 0; i < n; i++ {
			out[i] = arr.e[idx+i].(*Term)
		}
		return StrV{out} // snapshot: later writes through the bytes are not reflected (strings are immutable by contract)
	case "ssa:wrapnilchk":
		if p, ok := args[0].(Pointer); ok && p.obj == nil {
			in.goPanicRuntime("value method called using nil pointer")
		}
		return args[0]
	}
	unsupp("builtin %s on %T", b.Name(), args[0])
	return nil
}

// growCap mirrors runtime.growslice's capacity choice closely enough for aliasing behaviour
// (the exact size-class rounding is not modelled; capacity is at least newLen).
func growCap(oldCap, newLen int) int {
	newcap := oldCap
	doublecap := newcap + newcap
	if newLen > doublecap {
		return newLen
	}
	const threshold = 256
	if oldCap < threshold {
		if doublecap < newLen {
			return newLen
		}
		if doublecap == 0 {
			return newLen
		}
		return doublecap
	}
	for {
		newcap += (newcap + 3*threshold) >> 2
		if uint(newcap) >= uint(newLen) {
			break
		}
	}
	return newcap
}
