package main

// Path-based symbolic interpreter for go/ssa. One Interp per worker. A path is identified by
// its decision vector; exploring a new path re-executes the harness from the start.

import (
	"fmt"
	"go/constant"
	"go/token"
	"go/types"
	"strings"

	"golang.org/x/tools/go/ssa"
)

type decision struct {
	choice, n int
	val       uint64 // concretised value (for value-enumeration decisions)
	hasVal    bool
	unchecked bool // alternative switched to by backtracking, feasibility not yet checked
	swapped   bool // binary decision explored in the order (1, 0): the cached model supported alternative 1
	lazy      bool // taken without a feasibility query (LazyFork mode)
	limit     int  // exclusive upper bound of the choices explored by this worker (0 = n)
}

type goPanic struct {
	v   Value // value passed to panic (IfaceV)
	msg string
}

type pathDead struct{}
type budgetExceeded struct{ why string }
type specAbort struct{}

type tapeEntry struct {
	Kind string `json:"kind"`
	Name string `json:"name,omitempty"`
	term *Term
	Val  uint64 `json:"val"`
}

type observeEntry struct {
	name string
	term *Term
}

type funcInfo struct {
	index map[ssa.Value]int
	n     int
}

type deferred struct {
	fn   Value
	args []Value
}

type frame struct {
	fn        *ssa.Function
	info      *funcInfo
	env       []Value
	block     *ssa.BasicBlock
	prev      *ssa.BasicBlock
	defers    []deferred
	result    Value
	panicking bool
	panicVal  *goPanic
	caller    *frame
}

type Interp struct {
	prog  *ssa.Program
	tb    *TB
	sol   *Solver
	sizes types.Sizes
	hpkg  *ssa.Package // harness package
	cfg   *HarnessCfg

	finfo   map[*ssa.Function]*funcInfo
	consts  map[*ssa.Const]Value
	nextObj int
	nextMap int

	// init-time (template) globals and per-path clones
	tmplGlobals map[*ssa.Global]*Object
	cl          *cloner
	lenient     bool // init mode: unsupported calls poison instead of aborting
	initDone    map[*ssa.Package]bool

	// per-path state
	pc         []*Term
	decisions  []decision
	dpos       int
	tape       []tapeEntry
	observes   []observeEntry
	steps      int
	onceDone   map[string]bool
	atomicVals map[string]Value // contents of sync/atomic.Value objects (per path)
	noFork     bool
	depth      int
	reached    map[string]bool
	events     []string

	// accumulated results
	res *HarnessResult

	funcsSeen map[*ssa.Function]int
	stubsUsed map[string]int
	intercept map[string]*ssa.Function
	thorough  bool
	trace     bool
	concTape  []uint64 // concrete tape mode (translator validation): values for nondets
	concPos   int
	sched     *sched
	curFr     *frame
	spec      *specLog // non-nil while an if-conversion arm is executed speculatively
	curInstr  ssa.Instruction
	ev        *evaluator // cached model of pc (nil when unknown)
	trusted   *Term      // constraint just established by feasible(), about to be added to pc
}

func (in *Interp) info(fn *ssa.Function) *funcInfo {
	if fi, ok := in.finfo[fn]; ok {
		return fi
	}
	fi := &funcInfo{index: map[ssa.Value]int{}}
	add := func(v ssa.Value) {
		fi.index[v] = fi.n
		fi.n++
	}
	for _, p := range fn.Params {
		add(p)
	}
	for _, fv := range fn.FreeVars {
		add(fv)
	}
	for _, b := range fn.Blocks {
		for _, ins := range b.Instrs {
			if v, ok := ins.(ssa.Value); ok {
				add(v)
			}
		}
	}
	in.finfo[fn] = fi
	return fi
}

func (fr *frame) set(v ssa.Value, x Value) { fr.env[fr.info.index[v]] = x }

func (in *Interp) get(fr *frame, v ssa.Value) Value {
	switch c := v.(type) {
	case *ssa.Const:
		return in.constVal(c)
	case *ssa.Global:
		return Pointer{obj: in.globalObj(c)}
	case *ssa.Function:
		return c
	case *ssa.Builtin:
		return c
	}
	idx, ok := fr.info.index[v]
	if !ok {
		panic(fmt.Sprintf("internal: no slot for %v (%T) in %v", v, v, fr.fn))
	}
	x := fr.env[idx]
	if p, ok := x.(Poison); ok {
		unsupp("use of poisoned value: %s", p.why)
	}
	return x
}

// getRaw is get without the poison check (for moves: stores, phis, returns, call arguments).
func (in *Interp) getRaw(fr *frame, v ssa.Value) Value {
	switch v.(type) {
	case *ssa.Const, *ssa.Global, *ssa.Function, *ssa.Builtin:
		return in.get(fr, v)
	}
	idx, ok := fr.info.index[v]
	if !ok {
		panic(fmt.Sprintf("internal: no slot for %v (%T) in %v", v, v, fr.fn))
	}
	return fr.env[idx]
}

func (in *Interp) constVal(c *ssa.Const) Value {
	if v, ok := in.consts[c]; ok {
		return v
	}
	var v Value
	t := c.Type()
	if c.Value == nil {
		v = in.zero(t)
	} else {
		switch u := under(t).(type) {
		case *types.Basic:
			switch {
			case u.Info()&types.IsBoolean != 0:
				v = in.tb.Bool(constant.BoolVal(c.Value))
			case u.Info()&types.IsString != 0:
				v = in.strConst(constant.StringVal(c.Value))
			case u.Info()&types.IsInteger != 0:
				w := basicWidth(u)
				if i, ok := constant.Int64Val(constant.ToInt(c.Value)); ok {
					v = in.tb.BV(w, uint64(i))
				} else if ui, ok := constant.Uint64Val(constant.ToInt(c.Value)); ok {
					v = in.tb.BV(w, ui)
				} else {
					unsupp("integer constant out of range: %v", c)
				}
			case u.Info()&types.IsFloat != 0:
				f, _ := constant.Float64Val(c.Value)
				if basicWidth(u) == 32 {
					f32, _ := constant.Float32Val(c.Value)
					v = in.tb.BV(32, uint64(f32bits(f32)))
				} else {
					v = in.tb.BV(64, f64bits(f))
				}
			default:
				unsupp("constant of type %v", t)
			}
		default:
			unsupp("constant of type %v", t)
		}
	}
	in.consts[c] = v
	return v
}

func (in *Interp) globalObj(g *ssa.Global) *Object {
	tmpl, ok := in.tmplGlobals[g]
	if !ok {
		// global of a package whose init was not run: zero value, but poisoned unless it is in a root package
		var val Value
		if g.Pkg != nil && in.isRootPkg(g.Pkg) {
			val = in.zero(deref(g.Type()))
		} else {
			val = in.stubGlobal(g)
		}
		tmpl = &Object{id: -len(in.tmplGlobals) - 1, v: val, name: g.String()}
		in.tmplGlobals[g] = tmpl
	}
	if in.lenient || in.cl == nil {
		return tmpl
	}
	return in.cl.obj(tmpl)
}

func (in *Interp) isRootPkg(p *ssa.Package) bool {
	fn := p.Func("init")
	return fn != nil && len(fn.Blocks) > 0
}

// ---- decisions ----

func (in *Interp) addPC(c *Term) {
	if c.IsTrue() {
		return
	}
	in.pc = append(in.pc, c)
	// keep track of whether the cached model still satisfies the path condition
	if in.ev != nil && in.trusted != c {
		if v, ok := in.ev.eval(c); !ok || v != 1 {
			in.ev = nil
		}
	}
	in.trusted = nil
}

// modelVars lists the input variables whose values make up a model.
func (in *Interp) modelVars() []*Term {
	var vs []*Term
	for _, e := range in.tape {
		if e.term.op == OpVar {
			vs = append(vs, e.term)
		}
	}
	return vs
}

// feasible decides whether pc ∧ extra is satisfiable, first by evaluating extra under the cached
// model of pc (no solver call), otherwise by a query whose model is cached.
func (in *Interp) feasible(extra *Term) bool {
	if in.ev != nil && !in.cfg.NoModelCache {
		if v, ok := in.ev.eval(extra); ok && v == 1 {
			in.res.ModelHits++
			in.trusted = extra
			return true
		}
	}
	var want []*Term
	if !in.cfg.NoModelCache {
		want = in.modelVars()
	}
	r, m := in.sol.Check(in.pc, extra, want)
	if r == Unknown {
		in.res.UnknownFeas++
	}
	if r == Sat && !in.cfg.NoModelCache {
		if m == nil {
			m = map[*Term]uint64{}
		}
		in.ev = newEvaluator(m)
		in.trusted = extra
	}
	return r != Unsat
}

// fork decides a symbolic condition; returns the branch taken.
func (in *Interp) fork(c *Term) bool {
	if c.IsConst() {
		return c.v == 1
	}
	if in.noFork {
		panic(specAbort{})
	}
	alt := func(i int) *Term {
		if i == 0 {
			return c
		}
		return in.tb.Not(c)
	}
	ch := in.decide(2, alt, nil)
	return ch == 0
}

func (in *Interp) donateRest(from, n int, tmpl decision) {
	for j := from; j < n; j++ {
		p := make([]decision, len(in.decisions)+1)
		copy(p, in.decisions)
		d := tmpl
		d.choice = j
		p[len(in.decisions)] = d
		in.sched.donate(p)
	}
}

// decide picks one of n alternatives with path constraints alt(i).
func (in *Interp) decide(n int, alt func(int) *Term, vals func(int) (uint64, bool)) int {
	if in.noFork {
		panic(specAbort{})
	}
	if in.dpos < len(in.decisions) {
		d := &in.decisions[in.dpos]
		in.dpos++
		if d.n != n {
			panic(fmt.Sprintf("internal: nondeterministic re-execution (decision %d: n=%d, recorded %d)", in.dpos-1, n, d.n))
		}
		eff := d.choice
		if d.swapped {
			eff = 1 - d.choice
		}
		c := alt(eff)
		if d.unchecked && !d.lazy {
			d.unchecked = false
			if !in.feasible(c) {
				if in.cfg.Progress {
					in.res.Events["dead alternative at "+in.curLoc()]++
				}
				panic(pathDead{})
			}
		}
		in.addPC(c)
		return eff
	}
	if in.cfg.LazyFork && n == 2 && vals == nil {
		// lazy mode: take the branch without asking the solver; infeasible paths are discarded at
		// their first assertion (unsat) or at path end
		d := decision{choice: 0, n: 2, lazy: true}
		if in.sched != nil && in.sched.hungry() {
			in.donateRest(1, 2, decision{n: 2, lazy: true})
			d.limit = 1
		}
		in.decisions = append(in.decisions, d)
		in.dpos++
		in.addPC(alt(0))
		in.res.Forks++
		return 0
	}
	if n == 2 && in.ev != nil && !in.cfg.NoModelCache {
		// the cached model of pc tells which side is certainly feasible: take it first, no query
		if v, ok := in.ev.eval(alt(0)); ok {
			first := 0
			if v != 1 {
				first = 1
			}
			in.res.ModelHits++
			d := decision{choice: 0, n: 2, swapped: first == 1}
			if in.sched != nil && in.sched.hungry() {
				in.donateRest(1, 2, decision{n: 2, swapped: first == 1, unchecked: true})
				d.limit = 1
			}
			in.decisions = append(in.decisions, d)
			in.dpos++
			in.addPC(alt(first))
			in.res.Forks++
			return first
		}
	}
	// new decision: first feasible alternative
	for i := 0; i < n; i++ {
		c := alt(i)
		if i == n-1 && n > 1 {
			// all others infeasible: this one must be feasible since pc is
			in.decisions = append(in.decisions, decision{choice: i, n: n})
			in.dpos++
			in.addPC(c)
			return i
		}
		if in.feasible(c) {
			d := decision{choice: i, n: n}
			if in.sched != nil && in.sched.hungry() {
				in.donateRest(i+1, n, decision{n: n, unchecked: true})
				d.limit = i + 1
			}
			in.decisions = append(in.decisions, d)
			in.dpos++
			in.addPC(c)
			in.res.Forks++
			return i
		}
	}
	// n == 1 and infeasible
	panic(pathDead{})
}

// concretise enumerates the feasible values of a symbolic term (bounded by maxVals).
func (in *Interp) concretise(t *Term, what string) uint64 {
	if t.IsConst() {
		return t.v
	}
	if in.noFork {
		panic(specAbort{})
	}
	for iter := 0; ; iter++ {
		if iter > in.cfg.MaxConcretise {
			panic(budgetExceeded{fmt.Sprintf("concretisation of %s exceeds %d values", what, in.cfg.MaxConcretise)})
		}
		var v uint64
		if in.dpos < len(in.decisions) {
			d := &in.decisions[in.dpos]
			if !d.hasVal {
				panic("internal: nondeterministic re-execution (expected value decision)")
			}
			v = d.val
			in.dpos++
			eq := in.tb.Eq(t, in.tb.BV(t.w, v))
			if d.choice == 0 {
				in.addPC(eq)
				return v
			}
			ne := in.tb.Not(eq)
			if d.unchecked {
				d.unchecked = false
				if !in.feasible(ne) {
					panic(pathDead{})
				}
			}
			in.addPC(ne)
			continue
		}
		got := false
		if in.ev != nil && !in.cfg.NoModelCache {
			if v0, ok := in.ev.eval(t); ok {
				v, got = v0, true
				in.res.ModelHits++
			}
		}
		if !got {
			want := append([]*Term{t}, in.modelVars()...)
			r, m := in.sol.Check(in.pc, nil, want)
			if r != Sat {
				if r == Unknown {
					panic(budgetExceeded{"solver unknown while concretising " + what})
				}
				panic(pathDead{})
			}
			v = m[t]
			if !in.cfg.NoModelCache {
				in.ev = newEvaluator(m)
			}
		}
		in.res.Concretisations++
		d := decision{choice: 0, n: 2, val: v, hasVal: true}
		if in.sched != nil && in.sched.hungry() {
			p := make([]decision, len(in.decisions)+1)
			copy(p, in.decisions)
			p[len(in.decisions)] = decision{choice: 1, n: 2, val: v, hasVal: true, unchecked: true}
			in.sched.donate(p)
			d.limit = 1
		}
		in.decisions = append(in.decisions, d)
		in.dpos++
		in.addPC(in.tb.Eq(t, in.tb.BV(t.w, v)))
		return v
	}
}

// nextPath advances the decision vector; false when exploration is complete.
func (in *Interp) nextPath() bool {
	for len(in.decisions) > 0 {
		d := &in.decisions[len(in.decisions)-1]
		if d.choice+1 < d.n {
			d.choice++
			d.unchecked = true
			return true
		}
		in.decisions = in.decisions[:len(in.decisions)-1]
	}
	return false
}

// ---- panics ----

func (in *Interp) goPanicRuntime(msg string) {
	panic(&goPanic{v: IfaceV{t: runtimeErrType, v: &ErrV{msg: "runtime error: " + msg}}, msg: "runtime error: " + msg})
}

// check raises a Go runtime panic when bad is (feasibly) true.
func (in *Interp) check(bad *Term, msg string) {
	if bad.IsFalse() {
		return
	}
	if bad.IsTrue() {
		in.goPanicRuntime(msg)
	}
	if !in.fork(in.tb.Not(bad)) {
		in.goPanicRuntime(msg)
	}
}

// ---- calls ----

func (in *Interp) call(caller *frame, fn Value, args []Value, site ssa.Instruction) Value {
	switch f := fn.(type) {
	case *ssa.Function:
		if f == nil {
			in.goPanicRuntime("invalid memory address or nil pointer dereference (nil func)")
		}
		return in.callSSA(caller, f, args, nil)
	case *ClosureV:
		return in.callSSA(caller, f.fn, args, f.env)
	case *ssa.Builtin:
		return in.callBuiltin(caller, f, args, site)
	case OpaqueV:
		return in.zeroResults(site)
	case *nativeFn:
		return f.f(in, caller, args)
	}
	panic(fmt.Sprintf("internal: cannot call %T", fn))
}

func (in *Interp) zeroResults(site ssa.Instruction) Value {
	if v, ok := site.(ssa.Value); ok {
		return in.opaqueOrZero(v.Type())
	}
	return nil
}

// opaqueOrZero gives a stubbed call's result: interfaces/pointers become opaque handles, scalars zero.
func (in *Interp) opaqueOrZero(t types.Type) Value {
	switch u := under(t).(type) {
	case *types.Tuple:
		if u.Len() == 0 {
			return nil
		}
		tv := make(TupleV, u.Len())
		for i := range tv {
			tv[i] = in.opaqueOrZero(u.At(i).Type())
		}
		return tv
	case *types.Interface:
		if isErrorType(t) {
			return IfaceV{}
		}
		return IfaceV{t: opaqueType, v: OpaqueV{t.String()}}
	case *types.Pointer:
		return OpaqueV{t.String()}
	}
	return in.zero(t)
}

func isErrorType(t types.Type) bool {
	return types.Identical(t, types.Universe.Lookup("error").Type())
}

func (in *Interp) callSSA(caller *frame, fn *ssa.Function, args []Value, env []Value) Value {
	name := fn.String()
	if h, ok := in.lookupStub(fn, name); ok {
		in.stubsUsed[name]++
		return h(in, caller, fn, args)
	}
	if len(fn.Blocks) == 0 {
		if in.lenient {
			return Poison{"call to " + name + " (no body)"}
		}
		unsupp("call to function without body and without stub: %s", name)
	}
	in.depth++
	if in.depth > 400 {
		panic(budgetExceeded{"call depth"})
	}
	defer func() { in.depth-- }()
	in.funcsSeen[fn]++
	fi := in.info(fn)
	fr := &frame{fn: fn, info: fi, env: make([]Value, fi.n), caller: caller}
	if len(args) != len(fn.Params) {
		panic(fmt.Sprintf("internal: %s called with %d args, wants %d", name, len(args), len(fn.Params)))
	}
	for i, p := range fn.Params {
		fr.env[fi.index[p]] = args[i]
	}
	for i, fv := range fn.FreeVars {
		fr.env[fi.index[fv]] = env[i]
	}
	if len(in.cfg.Concretize) > 0 {
		if ps, ok := in.cfg.Concretize[name]; ok {
			for _, p := range fn.Params {
				for _, want := range ps {
					if p.Name() == want {
						if t, isT := fr.env[fi.index[p]].(*Term); isT && !t.IsConst() {
							fr.env[fi.index[p]] = in.tb.BV(t.w, in.concretise(t, name+":"+want))
						}
					}
				}
			}
		}
	}
	fr.block = fn.Blocks[0]
	for fr.block != nil {
		in.runFrame(fr)
	}
	if fr.result == nil && fr.panicVal != nil {
		// recovered without a Recover block: zero results
		res := fn.Signature.Results()
		switch res.Len() {
		case 0:
		case 1:
			return in.zero(res.At(0).Type())
		default:
			return in.zero(res)
		}
	}
	return fr.result
}

func (in *Interp) runFrame(fr *frame) {
	defer func() {
		if fr.block == nil {
			return
		}
		r := recover()
		gp, ok := r.(*goPanic)
		if !ok {
			panic(r)
		}
		fr.panicking = true
		fr.panicVal = gp
		in.runDefers(fr)
		fr.block = fr.fn.Recover
		fr.prev = nil
	}()
	for {
		blk := fr.block
		// phis
		i := 0
		if fr.prev == phiSkipMarker {
			for i < len(blk.Instrs) {
				if _, ok := blk.Instrs[i].(*ssa.Phi); !ok {
					break
				}
				i++
			}
		} else if fr.prev != nil {
			idx := -1
			for k, p := range blk.Preds {
				if p == fr.prev {
					idx = k
					break
				}
			}
			var vals []Value
			for ; i < len(blk.Instrs); i++ {
				phi, ok := blk.Instrs[i].(*ssa.Phi)
				if !ok {
					break
				}
				vals = append(vals, in.getRaw(fr, phi.Edges[idx]))
			}
			for k := 0; k < i; k++ {
				fr.set(blk.Instrs[k].(*ssa.Phi), vals[k])
			}
		}
	instrs:
		for ; i < len(blk.Instrs); i++ {
			in.steps++
			if in.steps > in.cfg.MaxSteps {
				panic(budgetExceeded{fmt.Sprintf("step budget %d exceeded in %s", in.cfg.MaxSteps, fr.fn)})
			}
			switch ins := blk.Instrs[i].(type) {
			case *ssa.If:
				in.curFr, in.curInstr = fr, ins
				c := in.get(fr, ins.Cond).(*Term)
				if !c.IsConst() && in.tryIfConvert(fr, blk, c) {
					break instrs
				}
				if in.fork(c) {
					fr.prev, fr.block = blk, blk.Succs[0]
				} else {
					fr.prev, fr.block = blk, blk.Succs[1]
				}
				break instrs
			case *ssa.Jump:
				fr.prev, fr.block = blk, blk.Succs[0]
				break instrs
			case *ssa.Return:
				switch len(ins.Results) {
				case 0:
					fr.result = nil
				case 1:
					fr.result = in.getRaw(fr, ins.Results[0])
				default:
					tv := make(TupleV, len(ins.Results))
					for k, r := range ins.Results {
						tv[k] = in.getRaw(fr, r)
					}
					fr.result = tv
				}
				fr.block = nil
				return
			case *ssa.Panic:
				x := in.get(fr, ins.X)
				panic(&goPanic{v: x, msg: in.panicMsg(x)})
			default:
				in.curFr, in.curInstr = fr, ins
				in.exec(fr, ins)
			}
		}
	}
}

func (in *Interp) panicMsg(x Value) string {
	if iv, ok := x.(IfaceV); ok {
		switch v := iv.v.(type) {
		case StrV:
			if s, ok := v.concrete(); ok {
				return s
			}
			return "<symbolic string>"
		case *ErrV:
			return v.msg
		}
		if iv.t != nil {
			return fmt.Sprintf("panic(%v)", iv.t)
		}
	}
	return "panic"
}

func (in *Interp) runDefers(fr *frame) {
	for len(fr.defers) > 0 {
		d := fr.defers[len(fr.defers)-1]
		fr.defers = fr.defers[:len(fr.defers)-1]
		in.runDefer(fr, d)
	}
	if fr.panicking {
		panic(fr.panicVal)
	}
}

func (in *Interp) runDefer(fr *frame, d deferred) {
	ok := false
	defer func() {
		if !ok {
			r := recover()
			gp, isGo := r.(*goPanic)
			if !isGo {
				panic(r)
			}
			// deferred call panicked: replaces the current panic
			fr.panicking = true
			fr.panicVal = gp
		}
	}()
	in.call(fr, d.fn, d.args, nil)
	ok = true
}

func (in *Interp) prepareCall(fr *frame, c *ssa.CallCommon) (Value, []Value) {
	v := in.get(fr, c.Value)
	var args []Value
	var fn Value
	if c.Method == nil {
		fn = v
	} else {
		recv, ok := v.(IfaceV)
		if !ok {
			panic(fmt.Sprintf("internal: invoke on %T", v))
		}
		if recv.t == nil {
			in.goPanicRuntime("invalid memory address or nil pointer dereference (method on nil interface)")
		}
		switch rv := recv.v.(type) {
		case OpaqueV:
			fn = OpaqueV{"method " + c.Method.Name()}
			if recv.t != opaqueType {
				if m := in.prog.LookupMethod(recv.t, c.Method.Pkg(), c.Method.Name()); m != nil {
					fn = m
					args = append(args, recv.v)
				}
			}
		case *ErrV:
			name := c.Method.Name()
			fn = &nativeFn{func(in *Interp, fr *frame, args []Value) Value {
				switch name {
				case "Error":
					return in.strConst(rv.msg)
				case "Unwrap":
					if len(rv.wrapped) > 0 {
						return rv.wrapped[0]
					}
					return IfaceV{}
				}
				unsupp("method %s on stub error", name)
				return nil
			}}
		case *HashObj:
			name := c.Method.Name()
			fn = &nativeFn{func(in *Interp, fr *frame, args []Value) Value { return in.hashMethod(fr, rv, name, args) }}
		default:
			m := in.prog.LookupMethod(recv.t, c.Method.Pkg(), c.Method.Name())
			if m == nil {
				unsupp("method %s not found for dynamic type %v", c.Method.Name(), recv.t)
			}
			fn = m
			args = append(args, recv.v)
		}
	}
	for _, a := range c.Args {
		args = append(args, in.getRaw(fr, a))
	}
	return fn, args
}

type nativeFn struct {
	f func(in *Interp, fr *frame, args []Value) Value
}

func (in *Interp) doCall(fr *frame, c *ssa.CallCommon, site ssa.Instruction) Value {
	fn, args := in.prepareCall(fr, c)
	if f, ok := fn.(*ssa.Function); ok && f != nil {
		if isVP(f) {
			return in.callVP(fr, f, args, site)
		}
	}
	return in.call(fr, fn, args, site)
}

// ---- instructions ----

func (in *Interp) exec(fr *frame, instr ssa.Instruction) {
	if in.lenient {
		defer func() {
			if r := recover(); r != nil {
				if u, ok := r.(unsupported); ok {
					if v, ok := instr.(ssa.Value); ok {
						fr.set(v, Poison{u.why})
						return
					}
					return
				}
				if re, ok := r.(interface{ RuntimeError() }); ok && re != nil {
					// package initialisers only: an operation on a poisoned operand (failed type assertion inside the interpreter)
					if v, ok := instr.(ssa.Value); ok {
						fr.set(v, Poison{fmt.Sprintf("init: %v", r)})
					}
					return
				}
				panic(r)
			}
		}()
	}
	switch ins := instr.(type) {
	case *ssa.DebugRef:
	case *ssa.UnOp:
		fr.set(ins, in.unop(fr, ins))
	case *ssa.BinOp:
		fr.set(ins, in.binop(ins.Op, ins.X.Type(), ins.Y.Type(), in.get(fr, ins.X), in.get(fr, ins.Y)))
	case *ssa.Call:
		fr.set(ins, in.doCall(fr, &ins.Call, ins))
	case *ssa.ChangeInterface:
		fr.set(ins, in.get(fr, ins.X))
	case *ssa.ChangeType:
		fr.set(ins, in.get(fr, ins.X))
	case *ssa.Convert:
		fr.set(ins, in.convert(ins.Type(), ins.X.Type(), in.get(fr, ins.X)))
	case *ssa.MultiConvert:
		fr.set(ins, in.convert(ins.Type(), ins.X.Type(), in.get(fr, ins.X)))
	case *ssa.SliceToArrayPointer:
		s := in.get(fr, ins.X).(SliceV)
		n := int(under(deref(ins.Type())).(*types.Array).Len())
		if s.len < n {
			in.goPanicRuntime(fmt.Sprintf("cannot convert slice with length %d to array or pointer to array with length %d", s.len, n))
		}
		if s.obj == nil {
			fr.set(ins, Pointer{})
		} else if s.off == 0 {
			fr.set(ins, Pointer{s.obj, s.path})
		} else {
			unsupp("SliceToArrayPointer at non-zero offset")
		}
	case *ssa.MakeInterface:
		x := in.get(fr, ins.X)
		if iv, ok := x.(IfaceV); ok && (iv.t == errValType || iv.t == opaqueType || iv.t == runtimeErrType) {
			fr.set(ins, iv)
		} else {
			fr.set(ins, IfaceV{t: ins.X.Type(), v: x})
		}
	case *ssa.Extract:
		t := in.get(fr, ins.Tuple)
		if p, ok := t.(Poison); ok {
			fr.set(ins, p)
		} else {
			fr.set(ins, t.(TupleV)[ins.Index])
		}
	case *ssa.Slice:
		fr.set(ins, in.sliceOp(fr, ins))
	case *ssa.RunDefers:
		in.runDefers(fr)
	case *ssa.Send:
		ch := in.get(fr, ins.Chan).(ChanV)
		if ch.c == nil {
			unsupp("send on nil channel (blocks forever)")
		}
		if ch.c.closed {
			panic(&goPanic{msg: "send on closed channel", v: IfaceV{t: runtimeErrType, v: &ErrV{msg: "send on closed channel"}}})
		}
		if len(ch.c.buf) >= ch.c.cap {
			unsupp("send on full/unbuffered channel (would block)")
		}
		ch.c.buf = append(ch.c.buf, in.get(fr, ins.X))
	case *ssa.Store:
		in.store(in.ptr(in.get(fr, ins.Addr)), in.getRaw(fr, ins.Val))
	case *ssa.Defer:
		fn, args := in.prepareCall(fr, &ins.Call)
		if ins.DeferStack != nil {
			unsupp("defer with explicit DeferStack (range-over-func)")
		}
		fr.defers = append(fr.defers, deferred{fn, args})
	case *ssa.Go:
		unsupp("go statement in %s", fr.fn)
	case *ssa.MakeChan:
		n := in.concInt(in.get(fr, ins.Size), "chan size")
		in.nextMap++
		fr.set(ins, ChanV{&ChanObj{id: in.nextMap, cap: n}})
	case *ssa.Alloc:
		obj := in.newObject(in.zero(deref(ins.Type())), ins.Comment)
		fr.set(ins, Pointer{obj: obj})
	case *ssa.MakeSlice:
		n := in.concInt(in.get(fr, ins.Len), "make len")
		c := in.concInt(in.get(fr, ins.Cap), "make cap")
		if n < 0 || n > c {
			in.goPanicRuntime("makeslice: len out of range")
		}
		if c > in.cfg.MaxAlloc {
			panic(budgetExceeded{fmt.Sprintf("make of %d elements in %s", c, fr.fn)})
		}
		fr.set(ins, in.makeSlice(under(ins.Type()).(*types.Slice).Elem(), n, c))
	case *ssa.MakeMap:
		in.nextMap++
		fr.set(ins, MapV{&MapObj{id: in.nextMap}})
	case *ssa.Range:
		fr.set(ins, in.rangeIter(in.get(fr, ins.X)))
	case *ssa.Next:
		fr.set(ins, in.next(ins, in.get(fr, ins.Iter).(*RangeIter)))
	case *ssa.FieldAddr:
		p := in.ptr(in.get(fr, ins.X))
		if p.obj == nil {
			in.goPanicRuntime("invalid memory address or nil pointer dereference")
		}
		fr.set(ins, Pointer{p.obj, extendPath(p.path, ins.Field)})
	case *ssa.Field:
		fr.set(ins, in.get(fr, ins.X).(*StructV).f[ins.Field])
	case *ssa.IndexAddr:
		fr.set(ins, in.indexAddr(fr, ins))
	case *ssa.Index:
		fr.set(ins, in.index(fr, ins))
	case *ssa.Lookup:
		fr.set(ins, in.lookup(fr, ins))
	case *ssa.MapUpdate:
		m := in.get(fr, ins.Map).(MapV)
		if m.m == nil {
			panic(&goPanic{msg: "assignment to entry in nil map", v: IfaceV{t: runtimeErrType, v: &ErrV{msg: "assignment to entry in nil map"}}})
		}
		in.mapSet(m.m, in.get(fr, ins.Key), in.get(fr, ins.Value))
	case *ssa.TypeAssert:
		fr.set(ins, in.typeAssert(ins, in.get(fr, ins.X)))
	case *ssa.MakeClosure:
		cl := &ClosureV{fn: ins.Fn.(*ssa.Function)}
		for _, b := range ins.Bindings {
			cl.env = append(cl.env, in.getRaw(fr, b))
		}
		fr.set(ins, cl)
	case *ssa.Select:
		fr.set(ins, in.selectOp(fr, ins))
	default:
		unsupp("instruction %T in %s", instr, fr.fn)
	}
}

func (in *Interp) ptr(v Value) Pointer {
	switch p := v.(type) {
	case Pointer:
		return p
	case OpaqueV:
		unsupp("dereference of opaque pointer (%s)", p.tag)
	case Poison:
		unsupp("dereference of poisoned pointer: %s", p.why)
	}
	panic(fmt.Sprintf("internal: pointer expected, got %T", v))
}

// concInt returns a concrete int for a (possibly symbolic) integer value by forking over its feasible values.
func (in *Interp) concInt(v Value, what string) int {
	if v == nil {
		return 0
	}
	t := v.(*Term)
	if t.IsConst() {
		return int(sext64(t.v, t.w))
	}
	return int(sext64(in.concretise(t, what), t.w))
}

func (in *Interp) indexAddr(fr *frame, ins *ssa.IndexAddr) Value {
	x := in.get(fr, ins.X)
	idx := in.toInt64(in.get(fr, ins.Index).(*Term), ins.Index.Type())
	switch b := x.(type) {
	case SliceV:
		i := in.boundedIndex(idx, b.len)
		return Pointer{b.obj, extendPath(b.path, b.off+i)}
	case Pointer: // *array
		if b.obj == nil {
			in.goPanicRuntime("invalid memory address or nil pointer dereference")
		}
		n := int(under(deref(ins.X.Type())).(*types.Array).Len())
		i := in.boundedIndex(idx, n)
		return Pointer{b.obj, extendPath(b.path, i)}
	}
	panic(fmt.Sprintf("internal: IndexAddr on %T", x))
}

// toInt64 sign/zero-extends an index term to 64 bits according to its Go type.
func (in *Interp) toInt64(t *Term, typ types.Type) *Term {
	b := under(typ).(*types.Basic)
	if t.w == 64 {
		return t
	}
	return in.tb.Resize(t, 64, isSigned(b))
}

// boundedIndex checks 0 <= idx < n (panic path otherwise) and returns a concrete index.
func (in *Interp) boundedIndex(idx *Term, n int) int {
	if idx.IsConst() {
		i := int64(idx.v)
		if i < 0 || i >= int64(n) {
			in.goPanicRuntime(fmt.Sprintf("index out of range [%d] with length %d", i, n))
		}
		return int(i)
	}
	bad := in.tb.Not(in.tb.ULt(idx, in.tb.BV(64, uint64(n))))
	in.check(bad, fmt.Sprintf("index out of range [symbolic] with length %d", n))
	if n == 1 {
		return 0
	}
	// enumerate the feasible indices
	i := in.decide(n, func(k int) *Term { return in.tb.Eq(idx, in.tb.BV(64, uint64(k))) }, nil)
	return i
}

func (in *Interp) index(fr *frame, ins *ssa.Index) Value {
	x := in.get(fr, ins.X)
	idx := in.toInt64(in.get(fr, ins.Index).(*Term), ins.Index.Type())
	switch b := x.(type) {
	case StrV:
		if idx.IsConst() {
			i := int64(idx.v)
			if i < 0 || i >= int64(len(b.b)) {
				in.goPanicRuntime(fmt.Sprintf("index out of range [%d] with length %d", i, len(b.b)))
			}
			return b.b[i]
		}
		bad := in.tb.Not(in.tb.ULt(idx, in.tb.BV(64, uint64(len(b.b)))))
		in.check(bad, "index out of range [symbolic] (string)")
		// ite chain
		res := b.b[len(b.b)-1]
		for k := len(b.b) - 2; k >= 0; k-- {
			res = in.tb.Ite(in.tb.Eq(idx, in.tb.BV(64, uint64(k))), b.b[k], res)
		}
		return res
	case *ArrayV:
		if idx.IsConst() {
			i := int64(idx.v)
			if i < 0 || i >= int64(len(b.e)) {
				in.goPanicRuntime(fmt.Sprintf("index out of range [%d] with length %d", i, len(b.e)))
			}
			return b.e[i]
		}
		i := in.boundedIndex(idx, len(b.e))
		return b.e[i]
	}
	panic(fmt.Sprintf("internal: Index on %T", x))
}

func (in *Interp) sliceOp(fr *frame, ins *ssa.Slice) Value {
	x := in.get(fr, ins.X)
	getb := func(v ssa.Value, def int) int {
		if v == nil {
			return def
		}
		return in.concInt(in.toInt64(in.get(fr, v).(*Term), v.Type()), "slice bound")
	}
	switch b := x.(type) {
	case StrV:
		lo := getb(ins.Low, 0)
		hi := getb(ins.High, len(b.b))
		if lo < 0 || hi < lo || hi > len(b.b) {
			in.goPanicRuntime(fmt.Sprintf("slice bounds out of range [%d:%d] with length %d", lo, hi, len(b.b)))
		}
		return StrV{b.b[lo:hi]}
	case SliceV:
		lo := getb(ins.Low, 0)
		hi := getb(ins.High, b.len)
		max := getb(ins.Max, b.cap)
		if lo < 0 || hi < lo || max < hi || max > b.cap {
			in.goPanicRuntime(fmt.Sprintf("slice bounds out of range [%d:%d:%d] with capacity %d", lo, hi, max, b.cap))
		}
		if b.obj == nil {
			return SliceV{}
		}
		return SliceV{obj: b.obj, path: b.path, off: b.off + lo, len: hi - lo, cap: max - lo}
	case Pointer: // *array
		if b.obj == nil {
			in.goPanicRuntime("invalid memory address or nil pointer dereference")
		}
		n := int(under(deref(ins.X.Type())).(*types.Array).Len())
		lo := getb(ins.Low, 0)
		hi := getb(ins.High, n)
		max := getb(ins.Max, n)
		if lo < 0 || hi < lo || max < hi || max > n {
			in.goPanicRuntime(fmt.Sprintf("slice bounds out of range [%d:%d:%d] with capacity %d", lo, hi, max, n))
		}
		return SliceV{obj: b.obj, path: b.path, off: lo, len: hi - lo, cap: max - lo}
	}
	panic(fmt.Sprintf("internal: Slice on %T", x))
}

func (in *Interp) typeAssert(ins *ssa.TypeAssert, x Value) Value {
	iv, ok := x.(IfaceV)
	if !ok {
		panic(fmt.Sprintf("internal: TypeAssert on %T", x))
	}
	okRes := false
	var res Value
	if iv.t != nil {
		if it, isIface := under(ins.AssertedType).(*types.Interface); isIface {
			switch iv.t {
			case errValType, runtimeErrType:
				okRes = it.NumMethods() == 0 || isErrorType(ins.AssertedType) || (it.NumMethods() == 1 && it.Method(0).Name() == "Unwrap" && len(iv.v.(*ErrV).wrapped) == 1)
			case opaqueType:
				okRes = it.NumMethods() == 0
			default:
				okRes = types.Implements(iv.t, it)
			}
			if okRes {
				res = iv
			}
		} else {
			okRes = types.Identical(iv.t, ins.AssertedType)
			if okRes {
				res = iv.v
			}
		}
	}
	if !okRes {
		if !ins.CommaOk {
			msg := fmt.Sprintf("interface conversion: interface is %v, not %v", iv.t, ins.AssertedType)
			panic(&goPanic{msg: msg, v: IfaceV{t: runtimeErrType, v: &ErrV{msg: msg}}})
		}
		res = in.zero(ins.AssertedType)
	}
	if ins.CommaOk {
		return TupleV{res, in.tb.Bool(okRes)}
	}
	return res
}

func (in *Interp) selectOp(fr *frame, ins *ssa.Select) Value {
	// Only non-blocking selects whose channels are not ready, or receives from buffered channels with data.
	chosen := -1
	var recv Value
	recvOk := false
	for i, st := range ins.States {
		ch, _ := in.get(fr, st.Chan).(ChanV)
		if _, isOpaque := in.get(fr, st.Chan).(OpaqueV); isOpaque {
			continue
		}
		if ch.c == nil {
			continue
		}
		if st.Dir == types.RecvOnly {
			if len(ch.c.buf) > 0 {
				chosen = i
				recv = ch.c.buf[0]
				ch.c.buf = ch.c.buf[1:]
				recvOk = true
				break
			}
			if ch.c.closed {
				chosen = i
				break
			}
		} else if len(ch.c.buf) < ch.c.cap {
			chosen = i
			ch.c.buf = append(ch.c.buf, in.get(fr, st.Send))
			break
		}
	}
	if chosen < 0 && ins.Blocking {
		unsupp("blocking select with no ready channel in %s", fr.fn)
	}
	r := TupleV{in.tb.BV(64, uint64(int64(chosen))), in.tb.Bool(recvOk)}
	for i, st := range ins.States {
		if st.Dir == types.RecvOnly {
			if i == chosen && recvOk {
				r = append(r, recv)
			} else {
				r = append(r, in.zero(under(st.Chan.Type()).(*types.Chan).Elem()))
			}
		}
	}
	return r
}

// tryIfConvert merges simple diamonds/triangles whose arms are pure into ite terms.
func (in *Interp) tryIfConvert(fr *frame, blk *ssa.BasicBlock, c *Term) (done bool) {
	if in.cfg.NoIfConvert {
		return false
	}
	s0, s1 := blk.Succs[0], blk.Succs[1]
	armEnd := func(b *ssa.BasicBlock) *ssa.BasicBlock {
		if len(b.Preds) != 1 {
			return nil
		}
		if len(b.Instrs) == 0 || len(b.Instrs) > 12 {
			return nil
		}
		j, ok := b.Instrs[len(b.Instrs)-1].(*ssa.Jump)
		if !ok {
			return nil
		}
		_ = j
		for _, ins := range b.Instrs[:len(b.Instrs)-1] {
			switch x := ins.(type) {
			case *ssa.BinOp:
				if x.Op == token.QUO || x.Op == token.REM {
					return nil
				}
			case *ssa.UnOp:
				if x.Op == token.ARROW {
					return nil
				}
			case *ssa.Convert, *ssa.ChangeType, *ssa.FieldAddr, *ssa.IndexAddr, *ssa.Field, *ssa.Index, *ssa.Extract, *ssa.DebugRef, *ssa.Store:
			default:
				return nil
			}
		}
		return b.Succs[0]
	}
	var join *ssa.BasicBlock
	var from0, from1 *ssa.BasicBlock // predecessor of join along each arm
	var arm0, arm1 *ssa.BasicBlock
	e0, e1 := armEnd(s0), armEnd(s1)
	switch {
	case e0 != nil && e0 == s1:
		join, from0, from1, arm0 = s1, s0, blk, s0
	case e1 != nil && e1 == s0:
		join, from0, from1, arm1 = s0, blk, s1, s1
	case e0 != nil && e0 == e1:
		join, from0, from1, arm0, arm1 = e0, s0, s1, s0, s1
	default:
		return false
	}
	if join == blk || join == s0 && join == s1 {
		return false
	}
	// join must start with at least zero phis; all phis scalar
	idx0, idx1 := -1, -1
	for k, p := range join.Preds {
		if p == from0 && idx0 < 0 {
			idx0 = k
		} else if p == from1 {
			idx1 = k
		}
	}
	if idx0 < 0 || idx1 < 0 {
		return false
	}
	savedSteps := in.steps
	ok := func() (ok bool) {
		prevNoFork := in.noFork
		in.noFork = true
		defer func() {
			in.noFork = prevNoFork
			in.spec = nil
			if r := recover(); r != nil {
				switch r.(type) {
				case specAbort, *goPanic, unsupported:
					ok = false
				default:
					panic(r)
				}
			}
		}()
		var logs [2]*specLog
		for ai, arm := range []*ssa.BasicBlock{arm0, arm1} {
			if arm == nil {
				continue
			}
			in.spec = &specLog{idx: map[string]int{}}
			for _, ins := range arm.Instrs[:len(arm.Instrs)-1] {
				in.exec(fr, ins)
			}
			logs[ai] = in.spec
			in.spec = nil
		}
		// merge speculative stores: location := ite(c, value on arm0, value on arm1)
		type merged struct {
			p      Pointer
			v0, v1 *Term
		}
		var ms []merged
		seen := map[string]int{}
		for ai, lg := range logs {
			if lg == nil {
				continue
			}
			for _, w := range lg.writes {
				k, ok := seen[w.key]
				if !ok {
					k = len(ms)
					seen[w.key] = k
					ms = append(ms, merged{p: w.p, v0: w.old, v1: w.old})
				}
				if ai == 0 {
					ms[k].v0 = w.new
				} else {
					ms[k].v1 = w.new
				}
			}
		}
		defer func() {
			if ok {
				for _, m := range ms {
					in.store(m.p, in.tb.Ite(c, m.v0, m.v1))
				}
			}
		}()
		var vals []Value
		nphi := 0
		for _, ins := range join.Instrs {
			phi, isPhi := ins.(*ssa.Phi)
			if !isPhi {
				break
			}
			nphi++
			a, aok := in.get(fr, phi.Edges[idx0]).(*Term)
			b, bok := in.get(fr, phi.Edges[idx1]).(*Term)
			if !aok || !bok || a.w != b.w {
				return false
			}
			vals = append(vals, in.tb.Ite(c, a, b))
		}
		for k := 0; k < nphi; k++ {
			fr.set(join.Instrs[k].(*ssa.Phi), vals[k])
		}
		return true
	}()
	if !ok {
		in.steps = savedSteps
		return false
	}
	in.res.IfConverted++
	// enter join past its phis: emulate by setting prev=nil (phis already set)
	fr.block, fr.prev = join, nil
	// runFrame skips phi evaluation when prev == nil, but would then try to execute phi instrs: handled via skipPhis
	in.skipPhis(fr)
	return true
}

// skipPhis arranges for runFrame to start after the phi prefix of fr.block.
func (in *Interp) skipPhis(fr *frame) { fr.prev = phiSkipMarker }

var phiSkipMarker = &ssa.BasicBlock{}

func f64bits(f float64) uint64 { return mathFloat64bits(f) }
func f32bits(f float32) uint32 { return mathFloat32bits(f) }

func shortPos(prog *ssa.Program, pos token.Pos) string {
	if !pos.IsValid() {
		return ""
	}
	p := prog.Fset.Position(pos)
	f := p.Filename
	if i := strings.LastIndex(f, "/"); i >= 0 {
		f = f[i+1:]
	}
	return fmt.Sprintf("%s:%d", f, p.Line)
}

func (in *Interp) curLoc() string {
	if in.curFr == nil || in.curInstr == nil {
		return "?"
	}
	return in.curFr.fn.Name() + " " + shortPos(in.prog, in.curInstr.Pos()) + fmt.Sprintf(" (%T)", in.curInstr)
}

// specLog records the stores of a speculatively executed arm (if-conversion with memory effects).
type specWrite struct {
	p        Pointer
	key      string
	old, new *Term
}
type specLog struct {
	writes []specWrite
	idx    map[string]int
}

func specKey(p Pointer) string { return fmt.Sprintf("%p%v", p.obj, p.path) }
