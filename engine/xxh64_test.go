package main

import "testing"

func TestXxh64(t *testing.T) {
	// reference values of XXH64 seed 0 (from the xxhash test-suite)
	for _, c := range []struct {
		in   string
		want uint64
	}{
		{"", 0xef46db3751d8e999},
		{"a", 0xd24ec4f1a98c6e5b},
		{"as", 0x1c330fb2d66be179},
		{"asd", 0x631c37ce72a97393},
		{"asdf", 0x415872f599cea71e},
		{"Call me Ishmael. Some years ago--never mind how long precisely-", 0x02a2e85470d6fd96},
	} {
		if got := xxh64([]byte(c.in)); got != c.want {
			t.Errorf("%q: got %x want %x", c.in, got, c.want)
		}
	}
}
