package main

import (
	"fmt"
	"os"
	"runtime/debug"
	"sort"
	"strings"
	"sync"
	"sync/atomic"
	"time"

	"golang.org/x/tools/go/ssa"
)

type HarnessCfg struct {
	MaxSteps       int
	MaxPaths       int
	QueryMS        int
	MaxConcretise  int
	MaxAlloc       int
	MaxCexPerLabel int
	Backend        string
	NoIfConvert    bool
	LazyFork       bool
	Workers        int
	Witnesses      int
	Fallbacks      []string
	WallS          int
	Progress       bool
	NoModelCache   bool
	Concretize     map[string][]string // function name -> parameters to concretise on entry
	FallbackS      int
}

func defaultCfg() *HarnessCfg {
	return &HarnessCfg{MaxSteps: 2_000_000, MaxPaths: 400_000, QueryMS: 20_000, MaxConcretise: 64, MaxAlloc: 1 << 16,
		MaxCexPerLabel: 2, Backend: "z3", Workers: 16, Witnesses: 24, Fallbacks: []string{"z3-new", "cvc5"}, FallbackS: 120}
}

type Violation struct {
	Harness   string      `json:"harness"`
	Label     string      `json:"label"`
	Kind      string      `json:"kind"` // assert | panic
	Msg       string      `json:"msg,omitempty"`
	Tape      []tapeEntry `json:"tape"`
	Observes  [][2]string `json:"observes,omitempty"`
	Path      string      `json:"path"`
	Confirmed bool        `json:"confirmed"`
	Native    string      `json:"native_outcome,omitempty"`
	Known     string      `json:"known,omitempty"`
	TapeFile  string      `json:"tape_file,omitempty"`
}

type AssertStat struct {
	Checked, Trivial, Proved, Failed, Unknown int
	Fallbacks                                 int
	Violations                                []*Violation
}

type Witness struct {
	Harness  string      `json:"harness"`
	Tape     []tapeEntry `json:"tape"`
	Observes [][2]string `json:"observes"`
	Reached  []string    `json:"reached"`
	Path     string      `json:"path"`
	Native   string      `json:"native,omitempty"`
	Agrees   bool        `json:"agrees"`
	// UFDependent: the path condition constrains an uninterpreted function (checksum stub); such a
	// witness cannot be replayed natively and is not counted as validated
	UFDependent bool `json:"uf_dependent,omitempty"`
}

type HarnessResult struct {
	Name            string
	Paths           int // completed feasible paths (returned normally or ended in a panic/violation)
	DeadPaths       int
	Forks           int
	IfConverted     int
	Concretisations int
	UnknownFeas     int
	ModelHits       int
	AssertQueries   int
	Steps           int64
	Asserts         map[string]*AssertStat
	Panics          []*Violation
	Inconclusive    map[string]int
	Reached         map[string]int
	Witnesses       []*Witness
	Funcs           map[string]int
	Stubs           map[string]int
	Solver          SolverStats
	WallS           float64
	Events          map[string]int
	PathLimitHit    bool
}

func newResult(name string) *HarnessResult {
	return &HarnessResult{Name: name, Asserts: map[string]*AssertStat{}, Inconclusive: map[string]int{}, Reached: map[string]int{},
		Funcs: map[string]int{}, Stubs: map[string]int{}, Events: map[string]int{}}
}

func (r *HarnessResult) assertStat(label string) *AssertStat {
	s := r.Asserts[label]
	if s == nil {
		s = &AssertStat{}
		r.Asserts[label] = s
	}
	return s
}

func (r *HarnessResult) addInconclusive(why string) { r.Inconclusive[why]++ }

func (r *HarnessResult) merge(o *HarnessResult) {
	r.Paths += o.Paths
	r.DeadPaths += o.DeadPaths
	r.Forks += o.Forks
	r.IfConverted += o.IfConverted
	r.Concretisations += o.Concretisations
	r.UnknownFeas += o.UnknownFeas
	r.ModelHits += o.ModelHits
	r.AssertQueries += o.AssertQueries
	r.Steps += o.Steps
	for k, v := range o.Asserts {
		s := r.assertStat(k)
		s.Checked += v.Checked
		s.Trivial += v.Trivial
		s.Proved += v.Proved
		s.Failed += v.Failed
		s.Unknown += v.Unknown
		s.Fallbacks += v.Fallbacks
		s.Violations = append(s.Violations, v.Violations...)
	}
	r.Panics = append(r.Panics, o.Panics...)
	for k, v := range o.Inconclusive {
		r.Inconclusive[k] += v
	}
	for k, v := range o.Reached {
		r.Reached[k] += v
	}
	r.Witnesses = append(r.Witnesses, o.Witnesses...)
	for k, v := range o.Funcs {
		if v > r.Funcs[k] {
			r.Funcs[k] = v
		}
	}
	for k, v := range o.Stubs {
		r.Stubs[k] += v
	}
	for k, v := range o.Events {
		r.Events[k] += v
	}
	r.Solver.Queries += o.Solver.Queries
	r.Solver.Sat += o.Solver.Sat
	r.Solver.Unsat += o.Solver.Unsat
	r.Solver.Unknown += o.Solver.Unknown
	r.Solver.Errors += o.Solver.Errors
	r.Solver.SolverNS += o.Solver.SolverNS
	r.Solver.Restarts += o.Solver.Restarts
	r.PathLimitHit = r.PathLimitHit || o.PathLimitHit
}

// ---- scheduling of decision prefixes over workers ----

type sched struct {
	mu       sync.Mutex
	cond     *sync.Cond
	queue    [][]decision
	idle     int32
	workers  int
	done     bool
	paths    int64
	maxPath  int64
	deadline time.Time
	wallS    int
	stop     int32
}

func newSched(workers int, maxPaths int) *sched {
	s := &sched{workers: workers, maxPath: int64(maxPaths)}
	s.cond = sync.NewCond(&s.mu)
	s.queue = [][]decision{nil}
	return s
}

func (s *sched) hungry() bool {
	return atomic.LoadInt32(&s.idle) > 0
}

func (s *sched) donate(prefix []decision) {
	s.mu.Lock()
	s.queue = append(s.queue, prefix)
	s.mu.Unlock()
	s.cond.Signal()
}

func (s *sched) take() ([]decision, bool) {
	s.mu.Lock()
	defer s.mu.Unlock()
	atomic.AddInt32(&s.idle, 1)
	for len(s.queue) == 0 && !s.done {
		if int(atomic.LoadInt32(&s.idle)) == s.workers {
			s.done = true
			s.cond.Broadcast()
			break
		}
		s.cond.Wait()
	}
	if s.done && len(s.queue) == 0 {
		return nil, false
	}
	atomic.AddInt32(&s.idle, -1)
	p := s.queue[len(s.queue)-1]
	s.queue = s.queue[:len(s.queue)-1]
	return p, true
}

// ---- worker ----

type worker struct {
	in    *Interp
	sc    *sched
	base  int // length of the prefix owned by the current work item
	fn    *ssa.Function
	limit time.Time
}

func newInterp(ld *Loaded, cfg *HarnessCfg, thorough bool) (*Interp, error) {
	tb := NewTB()
	sol, err := NewSolver(cfg.Backend, tb, cfg.QueryMS)
	if err != nil {
		return nil, err
	}
	in := &Interp{prog: ld.prog, tb: tb, sol: sol, hpkg: ld.hpkg, cfg: cfg,
		finfo: map[*ssa.Function]*funcInfo{}, consts: map[*ssa.Const]Value{}, tmplGlobals: map[*ssa.Global]*Object{},
		initDone: map[*ssa.Package]bool{}, funcsSeen: map[*ssa.Function]int{}, stubsUsed: map[string]int{},
		intercept: ld.intercepts, thorough: thorough}
	in.res = newResult("init")
	in.runInit()
	return in, nil
}

// runInit executes the package initialisers of the harness package (and, transitively, of every
// root package) once, in lenient mode.
func (in *Interp) runInit() {
	in.lenient = true
	in.onceDone = map[string]bool{}
	in.atomicVals = map[string]Value{}
	in.reached = map[string]bool{}
	defer func() { in.lenient = false }()
	initFn := in.hpkg.Func("init")
	if initFn == nil {
		return
	}
	func() {
		defer func() {
			if r := recover(); r != nil {
				switch x := r.(type) {
				case unsupported:
					in.res.Events["init aborted: "+x.why]++
				case *goPanic:
					in.res.Events["init panicked: "+x.msg]++
				case budgetExceeded:
					in.res.Events["init budget: "+x.why]++
				default:
					panic(r)
				}
			}
		}()
		saved := in.cfg.MaxSteps
		in.cfg.MaxSteps = 50_000_000
		in.steps = 0
		in.callSSA(nil, initFn, nil, nil)
		in.cfg.MaxSteps = saved
	}()
	in.pc = nil
}

func (w *worker) runItem(prefix []decision, res *HarnessResult) {
	in := w.in
	in.res = res
	in.decisions = prefix
	w.base = len(prefix)
	if w.base > 0 {
		// the last decision of a donated prefix is the one this item owns alone
		w.base = len(prefix)
	}
	for {
		if atomic.LoadInt32(&w.sc.stop) != 0 {
			return
		}
		if !w.sc.deadline.IsZero() && time.Now().After(w.sc.deadline) {
			res.PathLimitHit = true
			res.addInconclusive(fmt.Sprintf("wall-clock budget %ds exhausted", w.sc.wallS))
			atomic.StoreInt32(&w.sc.stop, 1)
			return
		}
		if n := atomic.AddInt64(&w.sc.paths, 1); n > w.sc.maxPath {
			res.PathLimitHit = true
			res.addInconclusive(fmt.Sprintf("path budget %d exhausted", w.sc.maxPath))
			atomic.StoreInt32(&w.sc.stop, 1)
			return
		}
		w.runPath(res)
		// backtrack within the owned subtree
		advanced := false
		for len(in.decisions) > w.base {
			d := &in.decisions[len(in.decisions)-1]
			lim := d.n
			if d.limit > 0 {
				lim = d.limit
			}
			if d.choice+1 < lim {
				d.choice++
				d.unchecked = true
				advanced = true
				break
			}
			in.decisions = in.decisions[:len(in.decisions)-1]
		}
		if !advanced {
			return
		}
	}
}

func (w *worker) runPath(res *HarnessResult) {
	in := w.in
	in.pc = in.pc[:0]
	in.dpos = 0
	in.tape = in.tape[:0]
	in.observes = in.observes[:0]
	in.steps = 0
	in.depth = 0
	in.noFork = false
	in.onceDone = map[string]bool{}
	in.atomicVals = map[string]Value{}
	in.reached = map[string]bool{}
	in.events = in.events[:0]
	in.cl = &cloner{objs: map[*Object]*Object{}, maps: map[*MapObj]*MapObj{}, chans: map[*ChanObj]*ChanObj{}, in: in}
	in.nextObj = 1 << 20
	in.tb.nfresh = 0
	in.ev = newEvaluator(map[*Term]uint64{}) // the all-zero assignment satisfies the empty path condition
	in.trusted = nil
	in.sched = w.sc
	kind := "ok"
	var gp *goPanic
	func() {
		defer func() {
			if r := recover(); r != nil {
				switch x := r.(type) {
				case *goPanic:
					kind, gp = "panic", x
				case pathDead:
					kind = "dead"
				case budgetExceeded:
					kind = "budget"
					res.addInconclusive("budget: " + x.why)
				case unsupported:
					kind = "unsupported"
					res.addInconclusive("unsupported: " + x.why)
				case specAbort:
					kind = "internal"
					res.addInconclusive("internal: specAbort escaped")
				default:
					kind = "internal"
					res.addInconclusive(fmt.Sprintf("internal error: %v [%s]", r, interpStack(string(debug.Stack()))))
				}
			}
		}()
		in.callSSA(nil, w.fn, nil, nil)
	}()
	res.Steps += int64(in.steps)
	for _, e := range in.events {
		res.Events[e]++
	}
	switch kind {
	case "dead":
		res.DeadPaths++
		return
	case "budget", "unsupported", "internal":
		res.Paths++
		return
	}
	if in.cfg.LazyFork {
		// forks were taken without feasibility checks: decide now whether this path exists at all
		if r, _ := in.sol.Check(in.pc, nil, nil); r == Unsat {
			res.DeadPaths++
			return
		} else if r == Unknown {
			res.UnknownFeas++
		}
	}
	res.Paths++
	for k := range in.reached {
		res.Reached[k]++
	}
	if kind == "panic" {
		label := "panic: " + gp.msg
		st := res.assertStat("no-panic")
		st.Checked++
		st.Failed++
		if len(res.Panics) < in.cfg.MaxCexPerLabel*2 {
			r, m := in.sol.Check(in.pc, nil, in.wantTerms())
			if r == Sat {
				tape, obs := in.snapshot(m)
				res.Panics = append(res.Panics, &Violation{Harness: res.Name, Label: "no-panic", Kind: "panic", Msg: label, Tape: tape, Observes: obs, Path: in.decisionString()})
			} else if r == Unknown {
				res.addInconclusive("panic path without model: " + label)
			}
		}
		return
	}
	// witness for translator validation on a logarithmic sample of paths
	n := res.Paths
	if len(res.Witnesses) < in.cfg.Witnesses && (n <= 4 || n&(n-1) == 0 || (n%3 == 0 && (n/3)&(n/3-1) == 0)) {
		r, m := in.sol.Check(in.pc, nil, in.wantTerms())
		if r == Sat {
			tape, obs := in.snapshot(m)
			var reached []string
			for k := range in.reached {
				reached = append(reached, k)
			}
			sort.Strings(reached)
			ufs := map[string]bool{}
			seen := map[*Term]bool{}
			for _, c := range in.pc {
				collectUFs(c, seen, ufs)
			}
			res.Witnesses = append(res.Witnesses, &Witness{Harness: res.Name, Tape: tape, Observes: obs, Reached: reached, Path: in.decisionString(), UFDependent: len(ufs) > 0})
		}
	}
}

// exploreHarness runs one harness function to completion over all workers.
func exploreHarness(ld *Loaded, fn *ssa.Function, cfg *HarnessCfg, thorough bool, pool *interpPool) *HarnessResult {
	t0 := time.Now()
	total := newResult(fn.Name())
	nw := cfg.Workers
	sc := newSched(nw, cfg.MaxPaths)
	if cfg.WallS > 0 {
		sc.deadline = t0.Add(time.Duration(cfg.WallS) * time.Second)
		sc.wallS = cfg.WallS
	}
	stopProgress := make(chan struct{})
	if cfg.Progress {
		go func() {
			tk := time.NewTicker(15 * time.Second)
			defer tk.Stop()
			for {
				select {
				case <-stopProgress:
					return
				case <-tk.C:
					fmt.Fprintf(os.Stderr, "  ... %s: %d paths started, %.0fs\n", fn.Name(), atomic.LoadInt64(&sc.paths), time.Since(t0).Seconds())
				}
			}
		}()
	}
	defer close(stopProgress)
	var wg sync.WaitGroup
	var mu sync.Mutex
	for i := 0; i < nw; i++ {
		wg.Add(1)
		go func(i int) {
			defer wg.Done()
			res := newResult(fn.Name())
			in, err := pool.get(i)
			if err != nil {
				res.addInconclusive("worker start: " + err.Error())
				mu.Lock()
				total.merge(res)
				mu.Unlock()
				// still participate in termination detection
				for {
					if _, ok := sc.take(); !ok {
						return
					}
				}
			}
			for k, v := range in.res.Events {
				res.Events[k] += v
			}
			in.res.Events = map[string]int{}
			w := &worker{in: in, sc: sc, fn: fn}
			before := in.sol.Stats
			in.funcsSeen = map[*ssa.Function]int{}
			in.stubsUsed = map[string]int{}
			for {
				prefix, ok := sc.take()
				if !ok {
					break
				}
				w.runItem(prefix, res)
			}
			after := in.sol.Stats
			res.Solver = SolverStats{Queries: after.Queries - before.Queries, Sat: after.Sat - before.Sat, Unsat: after.Unsat - before.Unsat,
				Unknown: after.Unknown - before.Unknown, Errors: after.Errors - before.Errors, SolverNS: after.SolverNS - before.SolverNS, Restarts: after.Restarts - before.Restarts}
			for f := range in.funcsSeen {
				n := 0
				for _, b := range f.Blocks {
					n += len(b.Instrs)
				}
				res.Funcs[f.String()] = n
			}
			for s, n := range in.stubsUsed {
				res.Stubs[s] += n
			}
			mu.Lock()
			total.merge(res)
			mu.Unlock()
		}(i)
	}
	wg.Wait()
	total.WallS = time.Since(t0).Seconds()
	return total
}

type interpPool struct {
	mu       sync.Mutex
	ld       *Loaded
	cfg      *HarnessCfg
	thorough bool
	ins      map[int]*Interp
}

func (p *interpPool) get(i int) (*Interp, error) {
	p.mu.Lock()
	in := p.ins[i]
	p.mu.Unlock()
	if in != nil {
		return in, nil
	}
	in, err := newInterp(p.ld, p.cfg, p.thorough)
	if err != nil {
		return nil, err
	}
	p.mu.Lock()
	p.ins[i] = in
	p.mu.Unlock()
	return in, nil
}

func (p *interpPool) close() {
	for _, in := range p.ins {
		in.sol.Close()
	}
}

// interpStack condenses a Go stack trace to the interpreter functions involved (no addresses).
func interpStack(st string) string {
	var fns []string
	for _, line := range strings.Split(st, "\n") {
		if strings.HasPrefix(line, "main.") {
			if i := strings.IndexByte(line, '('); i > 0 {
				name := line[:i]
				if j := strings.LastIndex(line, ")."); j > 0 {
					if k := strings.IndexByte(line[j+2:], '('); k > 0 {
						name = line[j+2 : j+2+k]
					}
				}
				if len(fns) == 0 || fns[len(fns)-1] != name {
					fns = append(fns, name)
				}
			}
		}
		if len(fns) >= 8 {
			break
		}
	}
	return strings.Join(fns, " < ")
}
