package main

// Concrete evaluation of terms under a model (used to avoid solver calls when the cached
// model of the path condition already decides a branch).

import "math"

type evaluator struct {
	vals  map[*Term]uint64 // model of the variables
	cache map[*Term]uint64
	bad   map[*Term]bool
}

func newEvaluator(vals map[*Term]uint64) *evaluator {
	return &evaluator{vals: vals, cache: map[*Term]uint64{}, bad: map[*Term]bool{}}
}

// eval returns the value of t (Bool as 0/1) or ok=false when t cannot be evaluated concretely.
func (e *evaluator) eval(t *Term) (uint64, bool) {
	if t.op == OpConst {
		if t.big != nil {
			return 0, false
		}
		return t.v, true
	}
	if v, ok := e.cache[t]; ok {
		return v, true
	}
	if e.bad[t] {
		return 0, false
	}
	v, ok := e.eval1(t)
	if ok {
		e.cache[t] = v
	} else {
		e.bad[t] = true
	}
	return v, ok
}

func (e *evaluator) eval1(t *Term) (uint64, bool) {
	if t.w > 64 {
		return 0, false
	}
	switch t.op {
	case OpVar:
		return e.vals[t] & maskOrBool(t.w), true // unconstrained variables default to 0
	case OpUF:
		return 0, false
	}
	var a [3]uint64
	for i, x := range t.args {
		if x.w > 64 {
			// only extract/compare of wide terms would need this; give up
			return 0, false
		}
		v, ok := e.eval(x)
		if !ok {
			return 0, false
		}
		if i < 3 {
			a[i] = v
		}
	}
	w := t.w
	b2u := func(b bool) uint64 {
		if b {
			return 1
		}
		return 0
	}
	switch t.op {
	case OpNot:
		return a[0] ^ 1, true
	case OpAnd:
		return a[0] & a[1], true
	case OpOr:
		return a[0] | a[1], true
	case OpEq:
		return b2u(a[0] == a[1]), true
	case OpIte:
		if a[0] == 1 {
			return a[1], true
		}
		return a[2], true
	case OpAdd, OpSub, OpMul, OpUDiv, OpURem, OpSDiv, OpSRem, OpBAnd, OpBOr, OpBXor, OpShl, OpLShr, OpAShr:
		return fold64(t.op, w, a[0], a[1])
	case OpBNot:
		return ^a[0] & mask(w), true
	case OpNeg:
		return -a[0] & mask(w), true
	case OpConcat:
		lw := t.args[1].w
		return (a[0]<<uint(lw) | a[1]) & mask(w), true
	case OpExtract:
		return (a[0] >> uint(t.p)) & mask(w), true
	case OpZExt:
		return a[0], true
	case OpSExt:
		return uint64(sext64(a[0], t.args[0].w)) & mask(w), true
	case OpULt:
		return b2u(a[0] < a[1]), true
	case OpULe:
		return b2u(a[0] <= a[1]), true
	case OpSLt:
		aw := t.args[0].w
		return b2u(sext64(a[0], aw) < sext64(a[1], aw)), true
	case OpSLe:
		aw := t.args[0].w
		return b2u(sext64(a[0], aw) <= sext64(a[1], aw)), true
	case OpFAddRaw, OpFSubRaw, OpFMulRaw, OpFDivRaw:
		if w == 64 {
			x, y := math.Float64frombits(a[0]), math.Float64frombits(a[1])
			var r float64
			switch t.op {
			case OpFAddRaw:
				r = x + y
			case OpFSubRaw:
				r = x - y
			case OpFMulRaw:
				r = x * y
			default:
				r = x / y
			}
			return math.Float64bits(r), true
		}
		x, y := math.Float32frombits(uint32(a[0])), math.Float32frombits(uint32(a[1]))
		var r float32
		switch t.op {
		case OpFAddRaw:
			r = x + y
		case OpFSubRaw:
			r = x - y
		case OpFMulRaw:
			r = x * y
		default:
			r = x / y
		}
		return uint64(math.Float32bits(r)), true
	case OpFRoundRaw:
		if w != 64 {
			return 0, false
		}
		x := math.Float64frombits(a[0])
		switch t.v {
		case 0:
			x = math.RoundToEven(x)
		case 1:
			x = math.Trunc(x)
		case 2:
			x = math.Floor(x)
		case 3:
			x = math.Ceil(x)
		case 4:
			x = math.Round(x)
		}
		return math.Float64bits(x), true
	case OpFSqrtRaw:
		if w != 64 {
			return 0, false
		}
		return math.Float64bits(math.Sqrt(math.Float64frombits(a[0]))), true
	case OpFFromSBV, OpFFromUBV:
		aw := t.args[0].w
		if w == 64 {
			if t.op == OpFFromSBV {
				return math.Float64bits(float64(sext64(a[0], aw))), true
			}
			return math.Float64bits(float64(a[0])), true
		}
		if t.op == OpFFromSBV {
			return uint64(math.Float32bits(float32(sext64(a[0], aw)))), true
		}
		return uint64(math.Float32bits(float32(a[0]))), true
	case OpFToSBVRaw:
		x := math.Float64frombits(a[0])
		if x != x || x >= 9223372036854775808.0 || x < -9223372036854775808.0 {
			return 0, false // unspecified in SMT-LIB; let the solver decide
		}
		return uint64(int64(x)), true
	case OpFToFRaw:
		if w == 64 {
			return math.Float64bits(float64(math.Float32frombits(uint32(a[0])))), true
		}
		return uint64(math.Float32bits(float32(math.Float64frombits(a[0])))), true
	}
	return 0, false
}

func maskOrBool(w int) uint64 {
	if w == 0 {
		return 1
	}
	return mask(w)
}
