package main

import (
	"bufio"
	"encoding/json"
	"fmt"
	"math"
	"os"
	"path/filepath"
	"sort"
	"strconv"
	"strings"
	"time"
)

func f64frombits(b uint64) float64 { return math.Float64frombits(b) }

type Coverage struct {
	States            int                      `json:"states"`
	Transitions       int                      `json:"transitions"`
	TracesValidated   int                      `json:"traces_validated_against_impl"`
	Samples           []map[string]interface{} `json:"samples"`
	Exhaustive        bool                     `json:"exhaustive"`
	Explanation       string                   `json:"explanation"`
	FunctionsEncoded  map[string]int           `json:"functions_encoded"`
	Bounds            []string                 `json:"bounds"`
	StubsUsed         map[string]int           `json:"stubs_used"`
	Solver            map[string]interface{}   `json:"solver"`
	Harnesses         []map[string]interface{} `json:"harnesses"`
	Inconclusive      []string                 `json:"inconclusive"`
	KnownFindings     int                      `json:"known_findings_matched"`
	EncoderMismatches int                      `json:"encoder_mismatches"`
	VacuityTags       map[string]int           `json:"vacuity_tags_reached"`
	ValidationFailed  []string                 `json:"validation_disagreements,omitempty"`
	Technique         string                   `json:"technique"`
}

type Evidence struct {
	PropertyID  string   `json:"property_id"`
	Tier        string   `json:"tier"`
	Seed        int64    `json:"seed"`
	Level       string   `json:"level"`
	Coverage    Coverage `json:"coverage"`
	Assumptions []string `json:"assumptions"`
	WallS       float64  `json:"wall_s"`
	Violations  int      `json:"violations"`

	Inconclusive      []string `json:"-"`
	KnownFindings     int      `json:"-"`
	EncoderMismatches int      `json:"-"`
	nHarness          int
	solverNS          int64
	q, sat, unsat, un int
	pathLimit         bool
	backends          map[string]bool
}

func (e *Evidence) inconclusive(why string) {
	e.Inconclusive = append(e.Inconclusive, oneLine(why))
}

func (e *Evidence) addHarness(gr *groupRun, r *HarnessResult) {
	c := &e.Coverage
	if c.FunctionsEncoded == nil {
		c.FunctionsEncoded = map[string]int{}
		c.StubsUsed = map[string]int{}
		c.VacuityTags = map[string]int{}
		e.backends = map[string]bool{}
	}
	e.nHarness++
	e.backends[gr.g.Backend] = true
	c.States += r.Paths
	c.Transitions += r.Solver.Queries
	for f, n := range r.Funcs {
		c.FunctionsEncoded[f] = n
	}
	for s, n := range r.Stubs {
		c.StubsUsed[s] += n
	}
	for t, n := range r.Reached {
		c.VacuityTags[r.Name+":"+t] += n
	}
	e.solverNS += r.Solver.SolverNS
	e.q += r.Solver.Queries
	e.sat += r.Solver.Sat
	e.unsat += r.Solver.Unsat
	e.un += r.Solver.Unknown
	e.pathLimit = e.pathLimit || r.PathLimitHit
	asserts := map[string]interface{}{}
	for l, a := range r.Asserts {
		asserts[l] = map[string]int{"checked": a.Checked, "trivially_true": a.Trivial, "proved_unsat": a.Proved, "failed_sat": a.Failed, "unknown": a.Unknown}
	}
	agree, disagree := 0, 0
	for _, w := range r.Witnesses {
		if w.Native == "" {
			continue
		}
		if w.Agrees {
			agree++
		} else {
			disagree++
			msg := fmt.Sprintf("%s path[%s] tape=%s engine obs=%v native=%s", w.Harness, w.Path, tapeString(w.Tape), w.Observes, w.Native)
			c.ValidationFailed = append(c.ValidationFailed, oneLine(msg))
			e.inconclusive("ENCODER-MISMATCH (translator validation): " + msg)
			e.EncoderMismatches++
			fmt.Println("ENCODER-MISMATCH " + oneLine(msg))
		}
	}
	c.TracesValidated += agree
	h := map[string]interface{}{"name": r.Name, "pkg": gr.g.Pkg, "tags": gr.g.Tags, "backend": gr.g.Backend,
		"feasible_paths": r.Paths, "infeasible_paths_pruned": r.DeadPaths, "forks": r.Forks, "if_converted": r.IfConverted,
		"concretisations": r.Concretisations, "ssa_steps": r.Steps, "assert_queries": r.AssertQueries, "asserts": asserts,
		"solver_queries": r.Solver.Queries, "solver_s": float64(r.Solver.SolverNS) / 1e9, "wall_s": r.WallS, "load_s": gr.ld.loadS,
		"witnesses_agree": agree, "witnesses_disagree": disagree, "unknown_feasibility": r.UnknownFeas}
	c.Harnesses = append(c.Harnesses, h)
	// samples: a few path witnesses written out
	for i, w := range r.Witnesses {
		if i >= 3 || len(c.Samples) >= 12 {
			break
		}
		c.Samples = append(c.Samples, map[string]interface{}{"harness": w.Harness, "path_decisions": w.Path, "inputs": tapeString(w.Tape),
			"observations": w.Observes, "reached": w.Reached, "native_agrees": w.Agrees})
	}
	for _, f := range gr.g.Files {
		for _, b := range f.BoundsDoc {
			if !contains(c.Bounds, b) {
				c.Bounds = append(c.Bounds, b)
			}
		}
		for _, a := range f.AssumeDoc {
			if !contains(e.Assumptions, a) {
				e.Assumptions = append(e.Assumptions, a)
			}
		}
	}
}

func contains(l []string, s string) bool {
	for _, x := range l {
		if x == s {
			return true
		}
	}
	return false
}

func (e *Evidence) finish() {
	c := &e.Coverage
	var bk []string
	for b := range e.backends {
		bk = append(bk, b+": "+solverVersion(b))
	}
	sort.Strings(bk)
	c.Solver = map[string]interface{}{"backends": bk, "queries": e.q, "sat": e.sat, "unsat": e.unsat, "unknown": e.un, "solver_s": float64(e.solverNS) / 1e9}
	c.Inconclusive = e.Inconclusive
	if c.Inconclusive == nil {
		c.Inconclusive = []string{}
	}
	c.KnownFindings = e.KnownFindings
	c.EncoderMismatches = e.EncoderMismatches
	c.Exhaustive = len(e.Inconclusive) == 0 && !e.pathLimit && c.States > 0
	c.Technique = "symbolic execution of go/ssa built from /repo's working tree; every assertion and panic site decided by an SMT query over all input values within the stated bounds"
	if len(e.Inconclusive) > 0 {
		c.Explanation = "INCONCLUSIVE run: " + strings.Join(e.Inconclusive, " ;; ")
	} else {
		c.Explanation = "states = feasible paths of the harnesses explored to their end (shape case split included); transitions = SMT queries discharged (feasibility, assertion and panic-site queries); " +
			"traces_validated_against_impl = solver-generated path witnesses whose predicted observations were reproduced bit-for-bit by the native build of the same harness against the real code; " +
			"exhaustive=true means every path of every declared shape finished with every assertion query unsat."
	}
	e.Assumptions = append(e.Assumptions,
		"go/ssa translation of the Go source is faithful; the gosym executor and term builder are correct (mitigated by native replay of counterexamples and translator-validation witnesses on every run)",
		"environment stubs listed under coverage.stubs_used (locks/atomics sequential, metrics/logging no-ops, checksums uninterpreted)",
		"single-threaded execution; nothing is claimed outside the bounds listed under coverage.bounds")
}

func (e *Evidence) write(d time.Duration) {
	e.WallS = d.Seconds()
	if e.Coverage.Samples == nil {
		e.Coverage.Samples = []map[string]interface{}{}
	}
	os.MkdirAll(filepath.Join(verifDir, "evidence"), 0o755)
	b, _ := json.MarshalIndent(e, "", " ")
	os.WriteFile(filepath.Join(verifDir, "evidence", e.PropertyID+".json"), b, 0o644)
}

// ---- known findings ----

type knownFinding struct {
	raw      string
	Property string
	Harness  string
	Label    string
	Pred     string
	What     string
}

type knownSet struct{ list []*knownFinding }

func loadKnownFindings(path string) *knownSet {
	ks := &knownSet{}
	f, err := os.Open(path)
	if err != nil {
		return ks
	}
	defer f.Close()
	sc := bufio.NewScanner(f)
	for sc.Scan() {
		line := strings.TrimSpace(sc.Text())
		if !strings.HasPrefix(line, "known:") {
			continue
		}
		k := &knownFinding{raw: line}
		for key, val := range parseKV(strings.TrimPrefix(line, "known:")) {
			switch key {
			case "property":
				k.Property = val
			case "harness":
				k.Harness = val
			case "label":
				k.Label = val
			case "pred":
				k.Pred = val
			case "what":
				k.What = val
			}
		}
		ks.list = append(ks.list, k)
	}
	return ks
}

func parseKV(s string) map[string]string {
	out := map[string]string{}
	i := 0
	for i < len(s) {
		for i < len(s) && s[i] == ' ' {
			i++
		}
		j := strings.IndexByte(s[i:], '=')
		if j < 0 {
			break
		}
		key := s[i : i+j]
		i += j + 1
		var val string
		if i < len(s) && s[i] == '"' {
			k := strings.IndexByte(s[i+1:], '"')
			if k < 0 {
				val = s[i+1:]
				i = len(s)
			} else {
				val = s[i+1 : i+1+k]
				i += k + 2
			}
		} else {
			k := strings.IndexByte(s[i:], ' ')
			if k < 0 {
				val = s[i:]
				i = len(s)
			} else {
				val = s[i : i+k]
				i += k
			}
		}
		out[key] = val
	}
	return out
}

func (ks *knownSet) match(prop string, v *Violation) *knownFinding {
	for _, k := range ks.list {
		if k.Property != prop || (k.Harness != "" && k.Harness != v.Harness) || (k.Label != "" && k.Label != v.Label) {
			continue
		}
		env := map[string]uint64{}
		for _, o := range v.Observes {
			n, _ := strconv.ParseUint(o[1], 10, 64)
			env[o[0]] = n
		}
		for i, t := range v.Tape {
			env[fmt.Sprintf("in%d", i)] = t.Val
			if t.Name != "" {
				env[t.Name] = t.Val
			}
		}
		ok, err := evalPred(k.Pred, env)
		if err == nil && ok {
			return k
		}
	}
	return nil
}

// evalPred: tiny expression language over observed values:
//
//	expr := or ; or := and ('||' and)* ; and := not ('&&' not)* ; not := '!' not | cmp
//	cmp := sum (op sum)? ; sum := atom (('+'|'-') atom)* ; atom := number | ident | f64(ident) | '(' expr ')'
//
// integers are compared as signed 64-bit; if either side is a float the comparison is in float64.
type pval struct {
	f   float64
	i   int64
	isF bool
	isB bool
	b   bool
}

type predParser struct {
	s   string
	pos int
	env map[string]uint64
	err error
}

func evalPred(s string, env map[string]uint64) (bool, error) {
	if strings.TrimSpace(s) == "" {
		return true, nil
	}
	p := &predParser{s: s, env: env}
	v := p.or()
	p.ws()
	if p.err == nil && p.pos < len(p.s) {
		p.err = fmt.Errorf("trailing input at %d", p.pos)
	}
	if p.err != nil {
		return false, p.err
	}
	return v.isB && v.b, nil
}

func (p *predParser) ws() {
	for p.pos < len(p.s) && (p.s[p.pos] == ' ' || p.s[p.pos] == '\t') {
		p.pos++
	}
}
func (p *predParser) eat(tok string) bool {
	p.ws()
	if strings.HasPrefix(p.s[p.pos:], tok) {
		p.pos += len(tok)
		return true
	}
	return false
}
func (p *predParser) or() pval {
	v := p.and()
	for p.eat("||") {
		w := p.and()
		v = pval{isB: true, b: v.b || w.b}
	}
	return v
}
func (p *predParser) and() pval {
	v := p.not()
	for p.eat("&&") {
		w := p.not()
		v = pval{isB: true, b: v.b && w.b}
	}
	return v
}
func (p *predParser) not() pval {
	p.ws()
	if p.pos < len(p.s) && p.s[p.pos] == '!' && !strings.HasPrefix(p.s[p.pos:], "!=") {
		p.pos++
		v := p.not()
		return pval{isB: true, b: !v.b}
	}
	return p.cmp()
}
func (p *predParser) cmp() pval {
	a := p.sum()
	for _, op := range []string{"==", "!=", "<=", ">=", "<", ">"} {
		if p.eat(op) {
			b := p.sum()
			var c int
			if a.isF || b.isF {
				x, y := a.f, b.f
				if !a.isF {
					x = float64(a.i)
				}
				if !b.isF {
					y = float64(b.i)
				}
				switch {
				case x < y:
					c = -1
				case x > y:
					c = 1
				case x == y:
					c = 0
				default:
					return pval{isB: true, b: op == "!="}
				}
			} else {
				switch {
				case a.i < b.i:
					c = -1
				case a.i > b.i:
					c = 1
				}
			}
			var r bool
			switch op {
			case "==":
				r = c == 0
			case "!=":
				r = c != 0
			case "<=":
				r = c <= 0
			case ">=":
				r = c >= 0
			case "<":
				r = c < 0
			case ">":
				r = c > 0
			}
			return pval{isB: true, b: r}
		}
	}
	return a
}
func (p *predParser) sum() pval {
	v := p.atom()
	for {
		p.ws()
		if p.pos < len(p.s) && (p.s[p.pos] == '+' || p.s[p.pos] == '-') {
			op := p.s[p.pos]
			p.pos++
			w := p.atom()
			if v.isF || w.isF {
				x, y := v.f, w.f
				if !v.isF {
					x = float64(v.i)
				}
				if !w.isF {
					y = float64(w.i)
				}
				if op == '+' {
					v = pval{isF: true, f: x + y}
				} else {
					v = pval{isF: true, f: x - y}
				}
			} else if op == '+' {
				v = pval{i: v.i + w.i}
			} else {
				v = pval{i: v.i - w.i}
			}
			continue
		}
		return v
	}
}
func (p *predParser) atom() pval {
	p.ws()
	if p.eat("(") {
		v := p.or()
		if !p.eat(")") {
			p.err = fmt.Errorf("missing )")
		}
		return v
	}
	start := p.pos
	for p.pos < len(p.s) && (isIdent(p.s[p.pos]) || p.s[p.pos] == '.' || p.s[p.pos] == '[' || p.s[p.pos] == ']') {
		p.pos++
	}
	tok := p.s[start:p.pos]
	if tok == "" {
		p.err = fmt.Errorf("unexpected input at %d", p.pos)
		p.pos = len(p.s)
		return pval{}
	}
	if tok == "f64" && p.eat("(") {
		v := p.or()
		if !p.eat(")") {
			p.err = fmt.Errorf("missing )")
		}
		return pval{isF: true, f: math.Float64frombits(uint64(v.i))}
	}
	if tok == "true" || tok == "false" {
		return pval{isB: true, b: tok == "true"}
	}
	if (tok[0] >= '0' && tok[0] <= '9') || tok[0] == '-' {
		if strings.ContainsAny(tok, ".eE") && !strings.HasPrefix(tok, "0x") {
			f, err := strconv.ParseFloat(tok, 64)
			if err != nil {
				p.err = err
			}
			return pval{isF: true, f: f}
		}
		n, err := strconv.ParseInt(tok, 0, 64)
		if err != nil {
			u, err2 := strconv.ParseUint(tok, 0, 64)
			if err2 != nil {
				p.err = err
			}
			n = int64(u)
		}
		return pval{i: n}
	}
	v, ok := p.env[tok]
	if !ok {
		p.err = fmt.Errorf("unknown name %q", tok)
	}
	return pval{i: int64(v)}
}
func isIdent(c byte) bool {
	return c == '_' || (c >= 'a' && c <= 'z') || (c >= 'A' && c <= 'Z') || (c >= '0' && c <= '9')
}
