package main

// The harness-side API (vp*): nondeterministic inputs, assumptions, assertions, observations.

import (
	"fmt"
	"go/types"
	"strings"

	"golang.org/x/tools/go/ssa"
)

func isVP(f *ssa.Function) bool {
	n := f.Name()
	if o := f.Origin(); o != nil {
		n = o.Name()
	}
	return strings.HasPrefix(n, "vp") && len(n) > 2 && n[2] >= 'A' && n[2] <= 'Z' && !strings.HasPrefix(n, "vpH_") && !strings.HasPrefix(n, "vpX")
}

func (in *Interp) nondet(kind string, w int) *Term {
	idx := len(in.tape)
	var t *Term
	if in.concTape != nil {
		var v uint64
		if in.concPos < len(in.concTape) {
			v = in.concTape[in.concPos]
		}
		in.concPos++
		if w == 0 {
			t = in.tb.Bool(v&1 == 1)
		} else {
			t = in.tb.BV(w, v)
		}
	} else {
		t = in.tb.Var(fmt.Sprintf("in%d_%s", idx, kind), w)
	}
	in.tape = append(in.tape, tapeEntry{Kind: kind, term: t})
	return t
}

func (in *Interp) callVP(fr *frame, f *ssa.Function, args []Value, site ssa.Instruction) Value {
	name := f.Name()
	if o := f.Origin(); o != nil {
		name = o.Name()
	}
	tb := in.tb
	str := func(v Value) string {
		s, ok := v.(StrV).concrete()
		if !ok {
			unsupp("vp label must be a constant string")
		}
		return s
	}
	switch name {
	case "vpInt64", "vpUint64", "vpInt", "vpUint", "vpFloat64":
		return in.nondet(name[2:], 64)
	case "vpInt32", "vpUint32", "vpFloat32":
		return in.nondet(name[2:], 32)
	case "vpInt16", "vpUint16":
		return in.nondet(name[2:], 16)
	case "vpInt8", "vpUint8", "vpByte":
		return in.nondet(name[2:], 8)
	case "vpBool":
		return in.nondet("Bool", 0)
	case "vpThorough":
		return tb.Bool(in.thorough)
	case "vpShape":
		lo := int(sext64(term(args[1]).v, 64))
		hi := int(sext64(term(args[2]).v, 64))
		if !term(args[1]).IsConst() || !term(args[2]).IsConst() || hi < lo {
			unsupp("vpShape bounds must be constants with lo <= hi")
		}
		n := hi - lo + 1
		ch := 0
		if n > 1 {
			ch = in.decide(n, func(int) *Term { return tb.tt }, nil)
		}
		v := tb.BV(64, uint64(int64(lo+ch)))
		in.tape = append(in.tape, tapeEntry{Kind: "Shape", Name: str(args[0]), term: v})
		return v
	case "vpRange":
		lo, hi := term(args[0]), term(args[1])
		v := in.nondet("Int", 64)
		c := tb.And(tb.SLe(lo, v), tb.SLe(v, hi))
		in.assume(c)
		return v
	case "vpConcretize":
		t := term(args[0])
		return tb.BV(t.w, in.concretise(t, "vpConcretize"))
	case "vpAssume":
		in.assume(term(args[0]))
		return nil
	case "vpAssert":
		in.assertion(term(args[0]), str(args[1]))
		return nil
	case "vpReach":
		in.reached[str(args[0])] = true
		return nil
	case "vpObserve":
		in.observe(str(args[0]), args[1])
		return nil
	case "vpAnd":
		return tb.And(term(args[0]), term(args[1]))
	case "vpOr":
		return tb.Or(term(args[0]), term(args[1]))
	case "vpImplies":
		return tb.Implies(term(args[0]), term(args[1]))
	case "vpIte":
		c := term(args[0])
		a, aok := args[1].(*Term)
		b, bok := args[2].(*Term)
		if aok && bok {
			return tb.Ite(c, a, b)
		}
		if in.fork(c) {
			return args[1]
		}
		return args[2]
	case "vpPanics":
		return in.vpPanics(fr, args[0])
	case "vpNative":
		// native-only setup (file system etc.); the engine relies on intercepts for the equivalent effect
		return nil
	case "vpDerived":
		// a value computed by (possibly intercepted) real code in the engine; natively it is re-supplied from the tape
		t, ok := args[0].(*Term)
		if !ok {
			unsupp("vpDerived of non-scalar %T", args[0])
		}
		in.tape = append(in.tape, tapeEntry{Kind: "Derived", term: t})
		return t
	case "vpFloatLt": // IEEE < on float64 without forking (harness convenience)
		return tb.FLt(term(args[0]), term(args[1]))
	case "vpUF64": // uninterpreted function of two uint64 (harness-side abstractions)
		return tb.UF("huf_"+str(args[0]), 64, term(args[1]), term(args[2]))
	}
	unsupp("unknown vp intrinsic %s", name)
	return nil
}

func (in *Interp) vpPanics(fr *frame, f Value) (res Value) {
	defer func() {
		if r := recover(); r != nil {
			if gp, ok := r.(*goPanic); ok {
				in.events = append(in.events, "panic caught by vpPanics: "+gp.msg)
				res = in.tb.tt
				return
			}
			panic(r)
		}
	}()
	in.call(fr, f, nil, nil)
	return in.tb.ff
}

func (in *Interp) assume(c *Term) {
	if c.IsTrue() {
		return
	}
	if c.IsFalse() {
		panic(pathDead{})
	}
	if in.noFork {
		panic(specAbort{})
	}
	if !in.feasible(c) {
		panic(pathDead{})
	}
	in.addPC(c)
}

func (in *Interp) wantTerms() []*Term {
	var want []*Term
	seen := map[*Term]bool{}
	for _, e := range in.tape {
		if !e.term.IsConst() && !seen[e.term] {
			seen[e.term] = true
			want = append(want, e.term)
		}
	}
	for _, o := range in.observes {
		if !o.term.IsConst() && !seen[o.term] {
			seen[o.term] = true
			want = append(want, o.term)
		}
	}
	return want
}

func evalTerm(t *Term, m map[*Term]uint64) uint64 {
	if t.IsConst() {
		return t.v
	}
	return m[t]
}

func (in *Interp) snapshot(m map[*Term]uint64) ([]tapeEntry, [][2]string) {
	tape := make([]tapeEntry, len(in.tape))
	for i, e := range in.tape {
		tape[i] = tapeEntry{Kind: e.Kind, Name: e.Name, Val: evalTerm(e.term, m)}
	}
	// group observes by name occurrence (multi-term observes share a name with #i suffix)
	var obs [][2]string
	for _, o := range in.observes {
		obs = append(obs, [2]string{o.name, fmt.Sprintf("%d", evalTerm(o.term, m))})
	}
	return tape, obs
}

func (in *Interp) assertion(c *Term, label string) {
	st := in.res.assertStat(label)
	st.Checked++
	if c.IsTrue() {
		st.Trivial++
		return
	}
	if in.noFork {
		panic(specAbort{})
	}
	if in.dpos < len(in.decisions) {
		// replayed prefix: this assertion was already decided on an earlier path with the same pc
		st.Checked--
		in.addPCchecked(c)
		return
	}
	neg := in.tb.Not(c)
	in.res.AssertQueries++
	var want []*Term
	wantCex := len(st.Violations) < in.cfg.MaxCexPerLabel
	if wantCex {
		want = in.wantTerms()
	}
	r, m := in.sol.Check(in.pc, neg, want)
	if r == Unknown {
		// portfolio fallback: fresh processes of the other solvers with a longer limit
		terms := append(append([]*Term{}, in.pc...), neg)
		for _, alt := range in.cfg.Fallbacks {
			st.Fallbacks++
			in.res.Events["fallback query to "+alt]++
			r, m = oneShot(alt, in.tb, terms, want, in.cfg.FallbackS)
			if r != Unknown {
				break
			}
		}
	}
	switch r {
	case Unsat:
		st.Proved++
		return // c is implied by pc; no need to add it
	case Unknown:
		st.Unknown++
		in.res.addInconclusive(fmt.Sprintf("assert %q: solver unknown (%s)", label, in.sol.lastErr))
	case Sat:
		st.Failed++
		if wantCex {
			if m == nil { // no symbolic input at all (only case-split shapes): the tape is fully concrete
				m = map[*Term]uint64{}
			}
			tape, obs := in.snapshot(m)
			st.Violations = append(st.Violations, &Violation{Harness: in.res.Name, Label: label, Kind: "assert", Tape: tape, Observes: obs,
				Path: in.decisionString()})
		}
	}
	in.addPCchecked(c)
}

// addPCchecked continues the path under c (the path dies if c is infeasible).
func (in *Interp) addPCchecked(c *Term) {
	if c.IsFalse() {
		panic(pathDead{})
	}
	if !in.feasible(c) {
		panic(pathDead{})
	}
	in.addPC(c)
}

func (in *Interp) decisionString() string {
	var sb strings.Builder
	for i, d := range in.decisions {
		if i >= in.dpos {
			break
		}
		if d.hasVal {
			fmt.Fprintf(&sb, "v%d:%d ", d.val, d.choice)
		} else {
			fmt.Fprintf(&sb, "%d/%d ", d.choice, d.n)
		}
	}
	return strings.TrimSpace(sb.String())
}

func (in *Interp) observe(name string, x Value) {
	if iv, ok := x.(IfaceV); ok {
		x = iv.v
		if iv.t != nil {
			if b, ok := under(iv.t).(*types.Basic); ok && b.Info()&types.IsBoolean != 0 {
				in.observes = append(in.observes, observeEntry{name, in.tb.B2BV(term(x), 8)})
				return
			}
		}
	}
	switch v := x.(type) {
	case *Term:
		if v.w == 0 {
			v = in.tb.B2BV(v, 8)
		}
		in.observes = append(in.observes, observeEntry{name, v})
	case StrV:
		in.observes = append(in.observes, observeEntry{name + ".len", in.tb.BV(64, uint64(len(v.b)))})
		for i, b := range v.b {
			in.observes = append(in.observes, observeEntry{fmt.Sprintf("%s[%d]", name, i), b})
		}
	case SliceV:
		el := in.sliceElems(v)
		in.observes = append(in.observes, observeEntry{name + ".len", in.tb.BV(64, uint64(len(el)))})
		for i, e := range el {
			t, ok := e.(*Term)
			if !ok {
				unsupp("vpObserve of slice of %T", e)
			}
			if t.w == 0 {
				t = in.tb.B2BV(t, 8)
			}
			in.observes = append(in.observes, observeEntry{fmt.Sprintf("%s[%d]", name, i), t})
		}
	case nil:
		in.observes = append(in.observes, observeEntry{name + ".nil", in.tb.BV(8, 1)})
	default:
		unsupp("vpObserve of %T", x)
	}
}

// vpRuntimeSource is the native implementation of the vp API, compiled into the package under test
// for replays and translator validation (and type-checked, but never executed, by the engine).
func vpRuntimeSource(pkgName string) string {
	return strings.Replace(vpRuntimeTmpl, "PKGNAME", pkgName, 1)
}

const vpRuntimeTmpl = `// Code generated by gosym. Native side of the vp harness API.
package PKGNAME

import (
	"fmt"
	"math"
)

type vpState struct {
	vals     []uint64
	pos      int
	thorough bool
	short    bool
	obs      [][2]string
	fails    []string
	reached  []string
}

type vpStop struct{ why string }

var vpT = &vpState{}

func vpNext() uint64 {
	if vpT.pos >= len(vpT.vals) {
		vpT.short = true
		vpT.pos++
		return 0
	}
	v := vpT.vals[vpT.pos]
	vpT.pos++
	return v
}

func vpInt64() int64     { return int64(vpNext()) }
func vpUint64() uint64   { return vpNext() }
func vpInt() int         { return int(vpNext()) }
func vpUint() uint       { return uint(vpNext()) }
func vpInt32() int32     { return int32(vpNext()) }
func vpUint32() uint32   { return uint32(vpNext()) }
func vpInt16() int16     { return int16(vpNext()) }
func vpUint16() uint16   { return uint16(vpNext()) }
func vpInt8() int8       { return int8(vpNext()) }
func vpUint8() uint8     { return uint8(vpNext()) }
func vpByte() byte       { return byte(vpNext()) }
func vpBool() bool       { return vpNext()&1 == 1 }
func vpFloat64() float64 { return math.Float64frombits(vpNext()) }
func vpFloat32() float32 { return math.Float32frombits(uint32(vpNext())) }
func vpThorough() bool   { return vpT.thorough }

func vpShape(name string, lo, hi int) int {
	v := int(int64(vpNext()))
	if v < lo || v > hi {
		panic(vpStop{"assume"})
	}
	return v
}

func vpRange(lo, hi int) int {
	v := int(int64(vpNext()))
	if v < lo || v > hi {
		panic(vpStop{"assume"})
	}
	return v
}

func vpConcretize[T any](x T) T { return x }

func vpAssume(c bool) {
	if !c {
		panic(vpStop{"assume"})
	}
}

func vpAssert(c bool, label string) {
	if !c {
		vpT.fails = append(vpT.fails, label)
		panic(vpStop{"fail:" + label})
	}
}

func vpReach(label string) { vpT.reached = append(vpT.reached, label) }

func vpAnd(a, b bool) bool     { return a && b }
func vpOr(a, b bool) bool      { return a || b }
func vpImplies(a, b bool) bool { return !a || b }
func vpIte[T any](c bool, a, b T) T {
	if c {
		return a
	}
	return b
}
func vpFloatLt(a, b float64) bool { return a < b }

// vpNative runs f only in the native build (the engine skips it and relies on //vp:intercept).
func vpNative(f func()) { f() }

// vpDerived: in the engine the argument (computed by real, possibly intercepted code) is kept;
// natively the engine's value for it is read back from the tape.
func vpDerived[T any](x T) T {
	v := vpNext()
	var r any
	switch any(x).(type) {
	case float64:
		r = math.Float64frombits(v)
	case float32:
		r = math.Float32frombits(uint32(v))
	case int64:
		r = int64(v)
	case uint64:
		r = v
	case int:
		r = int(v)
	case uint:
		r = uint(v)
	case int32:
		r = int32(v)
	case uint32:
		r = uint32(v)
	case uint8:
		r = uint8(v)
	case bool:
		r = v&1 == 1
	default:
		panic(fmt.Sprintf("vpDerived: unsupported type %T", x))
	}
	return r.(T)
}

func vpPanics(f func()) (p bool) {
	defer func() {
		if r := recover(); r != nil {
			if s, ok := r.(vpStop); ok {
				panic(s)
			}
			p = true
		}
	}()
	f()
	return false
}

func vpObs1(name string, v uint64) { vpT.obs = append(vpT.obs, [2]string{name, fmt.Sprintf("%d", v)}) }

func vpObserve(name string, x any) {
	switch v := x.(type) {
	case nil:
		vpObs1(name+".nil", 1)
	case bool:
		if v {
			vpObs1(name, 1)
		} else {
			vpObs1(name, 0)
		}
	case int:
		vpObs1(name, uint64(v))
	case int64:
		vpObs1(name, uint64(v))
	case int32:
		vpObs1(name, uint64(uint32(v)))
	case int16:
		vpObs1(name, uint64(uint16(v)))
	case int8:
		vpObs1(name, uint64(uint8(v)))
	case uint:
		vpObs1(name, uint64(v))
	case uint64:
		vpObs1(name, v)
	case uint32:
		vpObs1(name, uint64(v))
	case uint16:
		vpObs1(name, uint64(v))
	case uint8:
		vpObs1(name, uint64(v))
	case float64:
		vpObs1(name, math.Float64bits(v))
	case float32:
		vpObs1(name, uint64(math.Float32bits(v)))
	case string:
		vpObs1(name+".len", uint64(len(v)))
		for i := 0; i < len(v); i++ {
			vpObs1(fmt.Sprintf("%s[%d]", name, i), uint64(v[i]))
		}
	case []byte:
		vpObs1(name+".len", uint64(len(v)))
		for i := range v {
			vpObs1(fmt.Sprintf("%s[%d]", name, i), uint64(v[i]))
		}
	case []int64:
		vpObs1(name+".len", uint64(len(v)))
		for i := range v {
			vpObs1(fmt.Sprintf("%s[%d]", name, i), uint64(v[i]))
		}
	case []uint64:
		vpObs1(name+".len", uint64(len(v)))
		for i := range v {
			vpObs1(fmt.Sprintf("%s[%d]", name, i), v[i])
		}
	case []float64:
		vpObs1(name+".len", uint64(len(v)))
		for i := range v {
			vpObs1(fmt.Sprintf("%s[%d]", name, i), math.Float64bits(v[i]))
		}
	case []bool:
		vpObs1(name+".len", uint64(len(v)))
		for i := range v {
			if v[i] {
				vpObs1(fmt.Sprintf("%s[%d]", name, i), 1)
			} else {
				vpObs1(fmt.Sprintf("%s[%d]", name, i), 0)
			}
		}
	default:
		panic(fmt.Sprintf("vpObserve: unsupported type %T", x))
	}
}

// vpRunTape runs one harness on one tape and reports outcome, observations and reached tags.
func vpRunTape(h func(), vals []uint64, thorough bool) (outcome string, obs [][2]string, reached []string) {
	vpT = &vpState{vals: vals, thorough: thorough}
	defer func() {
		obs, reached = vpT.obs, vpT.reached
		if r := recover(); r != nil {
			if s, ok := r.(vpStop); ok {
				outcome = s.why
			} else {
				outcome = fmt.Sprintf("panic:%v", r)
			}
		}
		if vpT.short && outcome == "ok" {
			outcome = "short"
		}
	}()
	h()
	outcome = "ok"
	return
}
`

const vpReplayTestTmpl = `// Code generated by gosym. Replays tapes against the native build of the harnesses.
package PKGNAME

import (
	"encoding/json"
	"os"
	"testing"
)

type vpTapeIn struct {
	Harness  string   ` + "`json:\"harness\"`" + `
	Vals     []uint64 ` + "`json:\"vals\"`" + `
	Thorough bool     ` + "`json:\"thorough\"`" + `
}

type vpTapeOut struct {
	Outcome string      ` + "`json:\"outcome\"`" + `
	Obs     [][2]string ` + "`json:\"obs\"`" + `
	Reached []string    ` + "`json:\"reached\"`" + `
}

func TestVpReplay(t *testing.T) {
	hs := map[string]func(){
HARNESSMAP
	}
	data, err := os.ReadFile(os.Getenv("VP_TAPES"))
	if err != nil {
		t.Fatal(err)
	}
	var tapes []vpTapeIn
	if err := json.Unmarshal(data, &tapes); err != nil {
		t.Fatal(err)
	}
	outs := make([]vpTapeOut, len(tapes))
	for i, tp := range tapes {
		h := hs[tp.Harness]
		if h == nil {
			outs[i].Outcome = "noharness"
			continue
		}
		outs[i].Outcome, outs[i].Obs, outs[i].Reached = vpRunTape(h, tp.Vals, tp.Thorough)
	}
	b, _ := json.Marshal(outs)
	if err := os.WriteFile(os.Getenv("VP_OUT"), b, 0o644); err != nil {
		t.Fatal(err)
	}
}
`
