package main

import (
	"encoding/binary"
	"math/bits"
)

// xxh64 is XXH64 with seed 0 (what github.com/cespare/xxhash/v2.Sum64 computes); used to fold the
// hash stub when every input byte is concrete.
func xxh64(b []byte) uint64 {
	const (
		p1 uint64 = 11400714785074694791
		p2 uint64 = 14029467366897019727
		p3 uint64 = 1609587929392839161
		p4 uint64 = 9650029242287828579
		p5 uint64 = 2870177450012600261
	)
	round := func(acc, input uint64) uint64 {
		acc += input * p2
		acc = bits.RotateLeft64(acc, 31)
		return acc * p1
	}
	merge := func(acc, val uint64) uint64 {
		val = round(0, val)
		acc ^= val
		return acc*p1 + p4
	}
	n := len(b)
	var h uint64
	if n >= 32 {
		// p1 + p2 overflows uint64 as an untyped constant expression; wrap it through variables
		a, c := p1, p2
		v1, v2, v3, v4 := a+c, p2, uint64(0), -a
		for len(b) >= 32 {
			v1 = round(v1, binary.LittleEndian.Uint64(b[0:8]))
			v2 = round(v2, binary.LittleEndian.Uint64(b[8:16]))
			v3 = round(v3, binary.LittleEndian.Uint64(b[16:24]))
			v4 = round(v4, binary.LittleEndian.Uint64(b[24:32]))
			b = b[32:]
		}
		h = bits.RotateLeft64(v1, 1) + bits.RotateLeft64(v2, 7) + bits.RotateLeft64(v3, 12) + bits.RotateLeft64(v4, 18)
		h = merge(h, v1)
		h = merge(h, v2)
		h = merge(h, v3)
		h = merge(h, v4)
	} else {
		h = p5
	}
	h += uint64(n)
	for ; len(b) >= 8; b = b[8:] {
		k1 := round(0, binary.LittleEndian.Uint64(b[:8]))
		h ^= k1
		h = bits.RotateLeft64(h, 27)*p1 + p4
	}
	if len(b) >= 4 {
		h ^= uint64(binary.LittleEndian.Uint32(b[:4])) * p1
		h = bits.RotateLeft64(h, 23)*p2 + p3
		b = b[4:]
	}
	for ; len(b) > 0; b = b[1:] {
		h ^= uint64(b[0]) * p5
		h = bits.RotateLeft64(h, 11) * p1
	}
	h ^= h >> 33
	h *= p2
	h ^= h >> 29
	h *= p3
	h ^= h >> 32
	return h
}
