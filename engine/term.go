package main

// Hash-consed SMT terms (Bool and fixed-width bit-vectors) with constant folding.
// float64/float32 values are carried as their IEEE bit patterns (BV64/BV32).

import (
	"fmt"
	"math"
	"math/big"
	"math/bits"
	"strings"
)

type Op uint8

const (
	OpConst Op = iota
	OpVar
	OpNot
	OpAnd
	OpOr
	OpEq
	OpIte
	OpAdd
	OpSub
	OpMul
	OpUDiv
	OpURem
	OpSDiv
	OpSRem
	OpBAnd
	OpBOr
	OpBXor
	OpBNot
	OpNeg
	OpShl
	OpLShr
	OpAShr
	OpConcat
	OpExtract // v=hi, p=lo
	OpZExt    // p = extra bits
	OpSExt
	OpULt
	OpULe
	OpSLt
	OpSLe
	// floating point (arguments and results are IEEE bit patterns)
	OpFAddRaw // result bits via fp.to_ieee_bv; NaN handling added by the builder
	OpFSubRaw
	OpFMulRaw
	OpFDivRaw
	OpFRoundRaw // v = rounding mode: 0 RNE(ToEven) 1 RTZ(trunc) 2 RTN(floor) 3 RTP(ceil) 4 RNA(round)
	OpFSqrtRaw  //
	OpFFromSBV  // signed int (any width) -> float (w = 32/64)
	OpFFromUBV  //
	OpFToSBVRaw // float -> signed int of width w, RTZ (unspecified when out of range)
	OpFToFRaw   // float32<->float64 conversion, w = target width
	OpFLtRaw    // fp.lt on non-NaN operands (only used by the solver-side cross-check; normal compare is BV-encoded)
	OpUF        // uninterpreted function application; name, result width w
)

var opNames = map[Op]string{
	OpNot: "not", OpAnd: "and", OpOr: "or", OpEq: "=", OpIte: "ite",
	OpAdd: "bvadd", OpSub: "bvsub", OpMul: "bvmul", OpUDiv: "bvudiv", OpURem: "bvurem",
	OpSDiv: "bvsdiv", OpSRem: "bvsrem", OpBAnd: "bvand", OpBOr: "bvor", OpBXor: "bvxor",
	OpBNot: "bvnot", OpNeg: "bvneg", OpShl: "bvshl", OpLShr: "bvlshr", OpAShr: "bvashr",
	OpConcat: "concat", OpULt: "bvult", OpULe: "bvule", OpSLt: "bvslt", OpSLe: "bvsle",
}

type Term struct {
	op   Op
	w    int // 0 = Bool
	args []*Term
	v    uint64 // constant value (w<=64) or parameter
	p    int
	name string
	big  *big.Int // constant for w>64
	id   int
	size int    // dag-size estimate (saturating)
	k0   uint64 // bits known to be 0 (w <= 64)
	k1   uint64 // bits known to be 1 (w <= 64)
}

func (t *Term) IsConst() bool { return t.op == OpConst }
func (t *Term) IsBool() bool  { return t.w == 0 }
func (t *Term) IsTrue() bool  { return t.op == OpConst && t.w == 0 && t.v == 1 }
func (t *Term) IsFalse() bool { return t.op == OpConst && t.w == 0 && t.v == 0 }

type termKey struct {
	op         Op
	w          int
	v          uint64
	p          int
	a0, a1, a2 int
	name       string
}

// TB is a term builder (one per worker; not thread-safe).
type TB struct {
	tab    map[termKey]*Term
	nextID int
	tt, ff *Term
	ufs    map[string]string // uf name -> declaration
	nfresh int
}

func NewTB() *TB {
	tb := &TB{tab: map[termKey]*Term{}, ufs: map[string]string{}}
	tb.ff = tb.mk(&Term{op: OpConst, w: 0, v: 0})
	tb.tt = tb.mk(&Term{op: OpConst, w: 0, v: 1})
	return tb
}

func (tb *TB) mk(t *Term) *Term {
	k := termKey{op: t.op, w: t.w, v: t.v, p: t.p, name: t.name}
	switch len(t.args) {
	case 0:
	case 1:
		k.a0 = t.args[0].id + 1
	case 2:
		k.a0, k.a1 = t.args[0].id+1, t.args[1].id+1
	case 3:
		k.a0, k.a1, k.a2 = t.args[0].id+1, t.args[1].id+1, t.args[2].id+1
	default:
		var sb strings.Builder
		sb.WriteString(t.name)
		for _, a := range t.args {
			fmt.Fprintf(&sb, ",%d", a.id)
		}
		k.name = sb.String()
	}
	if t.big != nil {
		k.name = t.big.Text(16)
	}
	if old, ok := tb.tab[k]; ok {
		return old
	}
	t.id = tb.nextID
	tb.nextID++
	t.size = 1
	for _, a := range t.args {
		t.size += a.size
		if t.size > 1<<30 {
			t.size = 1 << 30
		}
	}
	tb.knownBits(t)
	tb.tab[k] = t
	return t
}

// knownBits computes the bits of t that are syntactically determined (w <= 64).
func (tb *TB) knownBits(t *Term) {
	if t.w == 0 || t.w > 64 {
		return
	}
	m := mask(t.w)
	switch t.op {
	case OpConst:
		t.k1, t.k0 = t.v, ^t.v&m
	case OpBAnd:
		a, b := t.args[0], t.args[1]
		t.k0, t.k1 = a.k0|b.k0, a.k1&b.k1
	case OpBOr:
		a, b := t.args[0], t.args[1]
		t.k1, t.k0 = a.k1|b.k1, a.k0&b.k0
	case OpBXor:
		a, b := t.args[0], t.args[1]
		known := (a.k0 | a.k1) & (b.k0 | b.k1)
		v := (a.k1 ^ b.k1) & known
		t.k1, t.k0 = v, known&^v
	case OpBNot:
		t.k0, t.k1 = t.args[0].k1, t.args[0].k0
	case OpShl:
		a, c := t.args[0], t.args[1]
		if c.IsConst() && c.v < uint64(t.w) {
			t.k1 = (a.k1 << c.v) & m
			t.k0 = ((a.k0 << c.v) | (uint64(1)<<c.v - 1)) & m
		}
	case OpLShr:
		a, c := t.args[0], t.args[1]
		if c.IsConst() && c.v < uint64(t.w) {
			t.k1 = a.k1 >> c.v
			t.k0 = (a.k0 >> c.v) | (m &^ (m >> c.v))
		}
	case OpZExt:
		a := t.args[0]
		t.k1 = a.k1
		t.k0 = a.k0 | (m &^ mask(a.w))
	case OpSExt:
		a := t.args[0]
		t.k1, t.k0 = a.k1, a.k0
		hi := m &^ mask(a.w)
		if a.k1>>(uint(a.w)-1)&1 == 1 {
			t.k1 |= hi
		} else if a.k0>>(uint(a.w)-1)&1 == 1 {
			t.k0 |= hi
		}
	case OpExtract:
		a := t.args[0]
		if a.w <= 64 {
			t.k1 = (a.k1 >> uint(t.p)) & m
			t.k0 = (a.k0 >> uint(t.p)) & m
		}
	case OpConcat:
		hi, lo := t.args[0], t.args[1]
		t.k1 = (hi.k1<<uint(lo.w) | lo.k1) & m
		t.k0 = (hi.k0<<uint(lo.w) | lo.k0) & m
	case OpIte:
		a, b := t.args[1], t.args[2]
		t.k0, t.k1 = a.k0&b.k0, a.k1&b.k1
	case OpAnd, OpOr, OpNot, OpEq:
	case OpAdd:
		// low bits: if the low k bits of both operands are known, so are the low k bits of the sum
		a, b := t.args[0], t.args[1]
		ka, kb := a.k0|a.k1, b.k0|b.k1
		n := 0
		for n < t.w && (ka>>uint(n))&1 == 1 && (kb>>uint(n))&1 == 1 {
			n++
		}
		if n > 0 {
			lm := mask(n)
			v := (a.k1 + b.k1) & lm
			t.k1, t.k0 = v, lm&^v
		}
	}
}

// allKnown returns the constant value of t if every bit is known.
func (tb *TB) allKnown(t *Term) (*Term, bool) {
	if t.w > 0 && t.w <= 64 && t.op != OpConst && (t.k0|t.k1) == mask(t.w) {
		return tb.BV(t.w, t.k1), true
	}
	return nil, false
}

func mask(w int) uint64 {
	if w >= 64 {
		return ^uint64(0)
	}
	return (uint64(1) << uint(w)) - 1
}

func (tb *TB) Bool(b bool) *Term {
	if b {
		return tb.tt
	}
	return tb.ff
}

func (tb *TB) BV(w int, v uint64) *Term {
	if w <= 0 {
		panic("BV width")
	}
	if w > 64 {
		return tb.BigBV(w, new(big.Int).SetUint64(v))
	}
	return tb.mk(&Term{op: OpConst, w: w, v: v & mask(w)})
}

func (tb *TB) BigBV(w int, b *big.Int) *Term {
	m := new(big.Int).Lsh(big.NewInt(1), uint(w))
	b = new(big.Int).Mod(b, m)
	if w <= 64 {
		return tb.BV(w, b.Uint64())
	}
	return tb.mk(&Term{op: OpConst, w: w, big: b})
}

func (tb *TB) Var(name string, w int) *Term {
	return tb.mk(&Term{op: OpVar, w: w, name: name})
}

func (tb *TB) Fresh(prefix string, w int) *Term {
	tb.nfresh++
	return tb.Var(fmt.Sprintf("%s!%d", prefix, tb.nfresh), w)
}

func (t *Term) bigVal() *big.Int {
	if t.big != nil {
		return t.big
	}
	return new(big.Int).SetUint64(t.v)
}

func sext64(v uint64, w int) int64 {
	if w >= 64 {
		return int64(v)
	}
	sh := uint(64 - w)
	return int64(v<<sh) >> sh
}

func bigSigned(b *big.Int, w int) *big.Int {
	if b.Bit(w-1) == 1 {
		m := new(big.Int).Lsh(big.NewInt(1), uint(w))
		return new(big.Int).Sub(b, m)
	}
	return b
}

// ---- Boolean ----

func (tb *TB) Not(a *Term) *Term {
	if a.w != 0 {
		panic("Not on non-bool")
	}
	if a.IsConst() {
		return tb.Bool(a.v == 0)
	}
	if a.op == OpNot {
		return a.args[0]
	}
	return tb.mk(&Term{op: OpNot, args: []*Term{a}})
}

func (tb *TB) And(a, b *Term) *Term {
	if a.w != 0 || b.w != 0 {
		panic("And on non-bool")
	}
	if a.IsFalse() || b.IsFalse() {
		return tb.ff
	}
	if a.IsTrue() {
		return b
	}
	if b.IsTrue() {
		return a
	}
	if a == b {
		return a
	}
	if (a.op == OpNot && a.args[0] == b) || (b.op == OpNot && b.args[0] == a) {
		return tb.ff
	}
	return tb.mk(&Term{op: OpAnd, args: []*Term{a, b}})
}

func (tb *TB) Or(a, b *Term) *Term {
	if a.w != 0 || b.w != 0 {
		panic("Or on non-bool")
	}
	if a.IsTrue() || b.IsTrue() {
		return tb.tt
	}
	if a.IsFalse() {
		return b
	}
	if b.IsFalse() {
		return a
	}
	if a == b {
		return a
	}
	if (a.op == OpNot && a.args[0] == b) || (b.op == OpNot && b.args[0] == a) {
		return tb.tt
	}
	return tb.mk(&Term{op: OpOr, args: []*Term{a, b}})
}

func (tb *TB) Implies(a, b *Term) *Term { return tb.Or(tb.Not(a), b) }

func (tb *TB) Eq(a, b *Term) *Term {
	if a.w != b.w {
		panic(fmt.Sprintf("Eq width mismatch %d %d", a.w, b.w))
	}
	if a == b {
		return tb.tt
	}
	if a.IsConst() && b.IsConst() {
		if a.big != nil || b.big != nil {
			return tb.Bool(a.bigVal().Cmp(b.bigVal()) == 0)
		}
		return tb.Bool(a.v == b.v)
	}
	if a.w == 0 {
		if a.IsConst() {
			a, b = b, a
		}
		if b.IsTrue() {
			return a
		}
		if b.IsFalse() {
			return tb.Not(a)
		}
	}
	if a.w > 0 && a.w <= 64 && (a.k1&b.k0|a.k0&b.k1) != 0 {
		return tb.ff
	}
	// eq(ite(c,k1,k2), k3) with constants
	if b.IsConst() && a.op == OpIte && a.args[1].IsConst() && a.args[2].IsConst() {
		e1 := tb.Eq(a.args[1], b)
		e2 := tb.Eq(a.args[2], b)
		return tb.Ite(a.args[0], e1, e2)
	}
	if a.IsConst() && b.op == OpIte && b.args[1].IsConst() && b.args[2].IsConst() {
		return tb.Eq(b, a)
	}
	if a.id > b.id {
		a, b = b, a
	}
	return tb.mk(&Term{op: OpEq, args: []*Term{a, b}})
}

func (tb *TB) Ite(c, a, b *Term) *Term {
	if c.w != 0 {
		panic("Ite cond")
	}
	if a.w != b.w {
		panic(fmt.Sprintf("Ite width mismatch %d %d", a.w, b.w))
	}
	if c.IsTrue() {
		return a
	}
	if c.IsFalse() {
		return b
	}
	if a == b {
		return a
	}
	if a.w == 0 {
		if a.IsTrue() && b.IsFalse() {
			return c
		}
		if a.IsFalse() && b.IsTrue() {
			return tb.Not(c)
		}
		if a.IsTrue() {
			return tb.Or(c, b)
		}
		if a.IsFalse() {
			return tb.And(tb.Not(c), b)
		}
		if b.IsTrue() {
			return tb.Or(tb.Not(c), a)
		}
		if b.IsFalse() {
			return tb.And(c, a)
		}
	}
	if c.op == OpNot {
		return tb.Ite(c.args[0], b, a)
	}
	r := tb.mk(&Term{op: OpIte, w: a.w, args: []*Term{c, a, b}})
	if k, ok := tb.allKnown(r); ok {
		return k
	}
	return r
}

// ---- bit-vector arithmetic ----

func (tb *TB) bin(op Op, a, b *Term) *Term {
	if a.w != b.w || a.w == 0 {
		panic(fmt.Sprintf("binop %v width mismatch %d %d", opNames[op], a.w, b.w))
	}
	w := a.w
	if a.IsConst() && b.IsConst() {
		if w <= 64 {
			if r, ok := fold64(op, w, a.v, b.v); ok {
				return tb.BV(w, r)
			}
		} else if r := foldBig(op, w, a.bigVal(), b.bigVal()); r != nil {
			return tb.BigBV(w, r)
		}
	}
	isZero := func(t *Term) bool { return t.IsConst() && t.big == nil && t.v == 0 }
	isOnes := func(t *Term) bool { return t.IsConst() && t.big == nil && w <= 64 && t.v == mask(w) }
	isOne := func(t *Term) bool { return t.IsConst() && t.big == nil && t.v == 1 }
	switch op {
	case OpAdd:
		if isZero(a) {
			return b
		}
		if isZero(b) {
			return a
		}
		if a.IsConst() {
			a, b = b, a
		}
		// (x + c1) + c2
		if b.IsConst() && a.op == OpAdd && a.args[1].IsConst() {
			return tb.bin(OpAdd, a.args[0], tb.bin(OpAdd, a.args[1], b))
		}
	case OpSub:
		if isZero(b) {
			return a
		}
		if a == b {
			return tb.BV(w, 0)
		}
		if b.IsConst() {
			return tb.bin(OpAdd, a, tb.Neg(b))
		}
	case OpMul:
		if isZero(a) || isZero(b) {
			return tb.BV(w, 0)
		}
		if isOne(a) {
			return b
		}
		if isOne(b) {
			return a
		}
		if a.IsConst() {
			a, b = b, a
		}
	case OpBAnd:
		if isZero(a) || isZero(b) {
			return tb.BV(w, 0)
		}
		if isOnes(a) {
			return b
		}
		if isOnes(b) {
			return a
		}
		if a == b {
			return a
		}
		if a.IsConst() {
			a, b = b, a
		}
	case OpBOr:
		if isZero(a) {
			return b
		}
		if isZero(b) {
			return a
		}
		if isOnes(a) || isOnes(b) {
			return tb.BV(w, mask(w))
		}
		if a == b {
			return a
		}
		if a.IsConst() {
			a, b = b, a
		}
	case OpBXor:
		if isZero(a) {
			return b
		}
		if isZero(b) {
			return a
		}
		if a == b {
			return tb.BV(w, 0)
		}
		if a.IsConst() {
			a, b = b, a
		}
	case OpShl, OpLShr, OpAShr:
		if isZero(b) {
			return a
		}
		if isZero(a) {
			return a
		}
		if b.IsConst() && b.big == nil && b.v >= uint64(w) && op != OpAShr {
			return tb.BV(w, 0)
		}
	case OpUDiv, OpSDiv:
		if isOne(b) {
			return a
		}
	}
	r := tb.mk(&Term{op: op, w: w, args: []*Term{a, b}})
	if c, ok := tb.allKnown(r); ok {
		return c
	}
	return r
}

func fold64(op Op, w int, x, y uint64) (uint64, bool) {
	m := mask(w)
	sx, sy := sext64(x, w), sext64(y, w)
	switch op {
	case OpAdd:
		return (x + y) & m, true
	case OpSub:
		return (x - y) & m, true
	case OpMul:
		return (x * y) & m, true
	case OpUDiv:
		if y == 0 {
			return m, true
		}
		return x / y, true
	case OpURem:
		if y == 0 {
			return x, true
		}
		return x % y, true
	case OpSDiv:
		if y == 0 {
			if sx < 0 {
				return 1, true
			}
			return m, true
		}
		if sy == -1 {
			return uint64(-sx) & m, true
		}
		return uint64(sx/sy) & m, true
	case OpSRem:
		if y == 0 {
			return x, true
		}
		if sy == -1 {
			return 0, true
		}
		return uint64(sx%sy) & m, true
	case OpBAnd:
		return x & y, true
	case OpBOr:
		return x | y, true
	case OpBXor:
		return x ^ y, true
	case OpShl:
		if y >= uint64(w) {
			return 0, true
		}
		return (x << y) & m, true
	case OpLShr:
		if y >= uint64(w) {
			return 0, true
		}
		return x >> y, true
	case OpAShr:
		if y >= uint64(w) {
			y = uint64(w - 1)
		}
		return uint64(sx>>y) & m, true
	}
	return 0, false
}

func foldBig(op Op, w int, x, y *big.Int) *big.Int {
	switch op {
	case OpAdd:
		return new(big.Int).Add(x, y)
	case OpSub:
		return new(big.Int).Sub(x, y)
	case OpMul:
		return new(big.Int).Mul(x, y)
	case OpBAnd:
		return new(big.Int).And(x, y)
	case OpBOr:
		return new(big.Int).Or(x, y)
	case OpBXor:
		return new(big.Int).Xor(x, y)
	case OpShl:
		if !y.IsUint64() || y.Uint64() >= uint64(w) {
			return big.NewInt(0)
		}
		return new(big.Int).Lsh(x, uint(y.Uint64()))
	case OpLShr:
		if !y.IsUint64() || y.Uint64() >= uint64(w) {
			return big.NewInt(0)
		}
		return new(big.Int).Rsh(x, uint(y.Uint64()))
	case OpUDiv:
		if y.Sign() == 0 {
			return nil
		}
		return new(big.Int).Quo(x, y)
	case OpURem:
		if y.Sign() == 0 {
			return nil
		}
		return new(big.Int).Rem(x, y)
	}
	return nil
}

func (tb *TB) Add(a, b *Term) *Term  { return tb.bin(OpAdd, a, b) }
func (tb *TB) Sub(a, b *Term) *Term  { return tb.bin(OpSub, a, b) }
func (tb *TB) Mul(a, b *Term) *Term  { return tb.bin(OpMul, a, b) }
func (tb *TB) UDiv(a, b *Term) *Term { return tb.bin(OpUDiv, a, b) }
func (tb *TB) URem(a, b *Term) *Term { return tb.bin(OpURem, a, b) }
func (tb *TB) SDiv(a, b *Term) *Term { return tb.bin(OpSDiv, a, b) }
func (tb *TB) SRem(a, b *Term) *Term { return tb.bin(OpSRem, a, b) }
func (tb *TB) BAnd(a, b *Term) *Term { return tb.bin(OpBAnd, a, b) }
func (tb *TB) BOr(a, b *Term) *Term  { return tb.bin(OpBOr, a, b) }
func (tb *TB) BXor(a, b *Term) *Term { return tb.bin(OpBXor, a, b) }
func (tb *TB) Shl(a, b *Term) *Term  { return tb.bin(OpShl, a, b) }
func (tb *TB) LShr(a, b *Term) *Term { return tb.bin(OpLShr, a, b) }
func (tb *TB) AShr(a, b *Term) *Term { return tb.bin(OpAShr, a, b) }

func (tb *TB) BNot(a *Term) *Term {
	if a.IsConst() {
		if a.big != nil {
			m := new(big.Int).Lsh(big.NewInt(1), uint(a.w))
			m.Sub(m, big.NewInt(1))
			return tb.BigBV(a.w, new(big.Int).Xor(a.big, m))
		}
		return tb.BV(a.w, ^a.v)
	}
	if a.op == OpBNot {
		return a.args[0]
	}
	return tb.mk(&Term{op: OpBNot, w: a.w, args: []*Term{a}})
}

func (tb *TB) Neg(a *Term) *Term {
	if a.IsConst() {
		if a.big != nil {
			return tb.BigBV(a.w, new(big.Int).Neg(a.big))
		}
		return tb.BV(a.w, -a.v)
	}
	if a.op == OpNeg {
		return a.args[0]
	}
	return tb.mk(&Term{op: OpNeg, w: a.w, args: []*Term{a}})
}

func (tb *TB) cmp(op Op, a, b *Term) *Term {
	if a.w != b.w || a.w == 0 {
		panic(fmt.Sprintf("cmp width mismatch %d %d", a.w, b.w))
	}
	if a.IsConst() && b.IsConst() {
		var c int
		switch op {
		case OpULt, OpULe:
			c = a.bigVal().Cmp(b.bigVal())
		default:
			c = bigSigned(a.bigVal(), a.w).Cmp(bigSigned(b.bigVal(), b.w))
		}
		if op == OpULt || op == OpSLt {
			return tb.Bool(c < 0)
		}
		return tb.Bool(c <= 0)
	}
	if a == b {
		return tb.Bool(op == OpULe || op == OpSLe)
	}
	if op == OpULt && b.IsConst() && b.big == nil && b.v == 0 {
		return tb.ff
	}
	if a.w <= 64 && (op == OpULt || op == OpULe) {
		m := mask(a.w)
		amin, amax := a.k1, ^a.k0&m
		bmin, bmax := b.k1, ^b.k0&m
		if op == OpULt {
			if amax < bmin {
				return tb.tt
			}
			if amin >= bmax {
				return tb.ff
			}
		} else {
			if amax <= bmin {
				return tb.tt
			}
			if amin > bmax {
				return tb.ff
			}
		}
	}
	if a.w <= 64 && (op == OpSLt || op == OpSLe) {
		// both operands with known-zero sign bit: unsigned comparison applies
		sb := uint64(1) << uint(a.w-1)
		if a.k0&sb != 0 && b.k0&sb != 0 {
			if op == OpSLt {
				return tb.cmp(OpULt, a, b)
			}
			return tb.cmp(OpULe, a, b)
		}
	}
	if op == OpULe && a.IsConst() && a.big == nil && a.v == 0 {
		return tb.tt
	}
	return tb.mk(&Term{op: op, args: []*Term{a, b}})
}

func (tb *TB) ULt(a, b *Term) *Term { return tb.cmp(OpULt, a, b) }
func (tb *TB) ULe(a, b *Term) *Term { return tb.cmp(OpULe, a, b) }
func (tb *TB) SLt(a, b *Term) *Term { return tb.cmp(OpSLt, a, b) }
func (tb *TB) SLe(a, b *Term) *Term { return tb.cmp(OpSLe, a, b) }

func (tb *TB) Extract(a *Term, hi, lo int) *Term {
	if hi < lo || hi >= a.w || lo < 0 {
		panic(fmt.Sprintf("extract [%d:%d] of width %d", hi, lo, a.w))
	}
	if lo == 0 && hi == a.w-1 {
		return a
	}
	w := hi - lo + 1
	if a.IsConst() {
		r := new(big.Int).Rsh(a.bigVal(), uint(lo))
		return tb.BigBV(w, r)
	}
	switch a.op {
	case OpExtract:
		return tb.Extract(a.args[0], hi+a.p, lo+a.p)
	case OpZExt:
		in := a.args[0]
		if hi < in.w {
			return tb.Extract(in, hi, lo)
		}
		if lo >= in.w {
			return tb.BV(w, 0)
		}
	case OpSExt:
		in := a.args[0]
		if hi < in.w {
			return tb.Extract(in, hi, lo)
		}
	case OpConcat:
		hiT, loT := a.args[0], a.args[1]
		if hi < loT.w {
			return tb.Extract(loT, hi, lo)
		}
		if lo >= loT.w {
			return tb.Extract(hiT, hi-loT.w, lo-loT.w)
		}
	case OpBAnd, OpBOr, OpBXor:
		// push extract through bitwise ops when one side is constant (byte packing code)
		if a.args[1].IsConst() {
			return tb.bin(a.op, tb.Extract(a.args[0], hi, lo), tb.Extract(a.args[1], hi, lo))
		}
	}
	r := tb.mk(&Term{op: OpExtract, w: w, v: uint64(hi), p: lo, args: []*Term{a}})
	if c, ok := tb.allKnown(r); ok {
		return c
	}
	return r
}

func (tb *TB) ZExt(a *Term, w int) *Term {
	if w == a.w {
		return a
	}
	if w < a.w {
		panic("zext narrower")
	}
	if a.IsConst() {
		return tb.BigBV(w, a.bigVal())
	}
	if a.op == OpZExt {
		return tb.ZExt(a.args[0], w)
	}
	return tb.mk(&Term{op: OpZExt, w: w, p: w - a.w, args: []*Term{a}})
}

func (tb *TB) SExt(a *Term, w int) *Term {
	if w == a.w {
		return a
	}
	if w < a.w {
		panic("sext narrower")
	}
	if a.IsConst() {
		return tb.BigBV(w, bigSigned(a.bigVal(), a.w))
	}
	return tb.mk(&Term{op: OpSExt, w: w, p: w - a.w, args: []*Term{a}})
}

func (tb *TB) Concat(hi, lo *Term) *Term {
	w := hi.w + lo.w
	if hi.IsConst() && lo.IsConst() {
		r := new(big.Int).Lsh(hi.bigVal(), uint(lo.w))
		r.Or(r, lo.bigVal())
		return tb.BigBV(w, r)
	}
	return tb.mk(&Term{op: OpConcat, w: w, args: []*Term{hi, lo}})
}

// Resize converts a to width w (truncate or extend by signedness).
func (tb *TB) Resize(a *Term, w int, signed bool) *Term {
	if w == a.w {
		return a
	}
	if w < a.w {
		return tb.Extract(a, w-1, 0)
	}
	if signed {
		return tb.SExt(a, w)
	}
	return tb.ZExt(a, w)
}

func (tb *TB) B2BV(c *Term, w int) *Term { return tb.Ite(c, tb.BV(w, 1), tb.BV(w, 0)) }

// ---- floating point on bit patterns ----

func fpParams(w int) (eb, sb int) {
	if w == 32 {
		return 8, 24
	}
	return 11, 53
}

func (tb *TB) FIsNaN(a *Term) *Term {
	if a.w == 64 {
		return tb.ULt(tb.BV(64, 0x7FF0000000000000), tb.BAnd(a, tb.BV(64, 0x7FFFFFFFFFFFFFFF)))
	}
	return tb.ULt(tb.BV(32, 0x7F800000), tb.BAnd(a, tb.BV(32, 0x7FFFFFFF)))
}

func (tb *TB) FIsInf(a *Term) *Term {
	if a.w == 64 {
		return tb.Eq(tb.BV(64, 0x7FF0000000000000), tb.BAnd(a, tb.BV(64, 0x7FFFFFFFFFFFFFFF)))
	}
	return tb.Eq(tb.BV(32, 0x7F800000), tb.BAnd(a, tb.BV(32, 0x7FFFFFFF)))
}

func (tb *TB) fAbsMask(w int) *Term {
	if w == 64 {
		return tb.BV(64, 0x7FFFFFFFFFFFFFFF)
	}
	return tb.BV(32, 0x7FFFFFFF)
}

func (tb *TB) FIsZero(a *Term) *Term {
	return tb.Eq(tb.BAnd(a, tb.fAbsMask(a.w)), tb.BV(a.w, 0))
}

func (tb *TB) fSign(a *Term) *Term { return tb.Eq(tb.Extract(a, a.w-1, a.w-1), tb.BV(1, 1)) }

// FEq: IEEE ==
func (tb *TB) FEq(a, b *Term) *Term {
	if a.IsConst() && b.IsConst() {
		if a.w == 64 {
			return tb.Bool(math.Float64frombits(a.v) == math.Float64frombits(b.v))
		}
		return tb.Bool(math.Float32frombits(uint32(a.v)) == math.Float32frombits(uint32(b.v)))
	}
	nn := tb.And(tb.Not(tb.FIsNaN(a)), tb.Not(tb.FIsNaN(b)))
	same := tb.Or(tb.Eq(a, b), tb.And(tb.FIsZero(a), tb.FIsZero(b)))
	return tb.And(nn, same)
}

// FLt: IEEE <
func (tb *TB) FLt(a, b *Term) *Term {
	if a.IsConst() && b.IsConst() {
		if a.w == 64 {
			return tb.Bool(math.Float64frombits(a.v) < math.Float64frombits(b.v))
		}
		return tb.Bool(math.Float32frombits(uint32(a.v)) < math.Float32frombits(uint32(b.v)))
	}
	nn := tb.And(tb.Not(tb.FIsNaN(a)), tb.Not(tb.FIsNaN(b)))
	bothZero := tb.And(tb.FIsZero(a), tb.FIsZero(b))
	sa, sb := tb.fSign(a), tb.fSign(b)
	// sign(a) && !sign(b): a<b ; !sign(a)&&sign(b): false ; both pos: a <u b ; both neg: b <u a
	ord := tb.Ite(sa, tb.Ite(sb, tb.ULt(b, a), tb.tt), tb.Ite(sb, tb.ff, tb.ULt(a, b)))
	return tb.And(nn, tb.And(tb.Not(bothZero), ord))
}

func (tb *TB) FLe(a, b *Term) *Term {
	if a.IsConst() && b.IsConst() {
		if a.w == 64 {
			return tb.Bool(math.Float64frombits(a.v) <= math.Float64frombits(b.v))
		}
		return tb.Bool(math.Float32frombits(uint32(a.v)) <= math.Float32frombits(uint32(b.v)))
	}
	return tb.Or(tb.FLt(a, b), tb.FEq(a, b))
}

func (tb *TB) FNeg(a *Term) *Term {
	return tb.BXor(a, tb.BV(a.w, uint64(1)<<uint(a.w-1)))
}

func (tb *TB) FAbs(a *Term) *Term { return tb.BAnd(a, tb.fAbsMask(a.w)) }

func (tb *TB) quiet(a *Term) *Term {
	if a.w == 64 {
		return tb.BOr(a, tb.BV(64, 0x0008000000000000))
	}
	return tb.BOr(a, tb.BV(32, 0x00400000))
}

func (tb *TB) defaultNaN(w int) *Term {
	if w == 64 {
		return tb.BV(64, 0xFFF8000000000000)
	}
	return tb.BV(32, 0xFFC00000)
}

// FArith builds a+b, a-b, a*b, a/b with amd64 SSE NaN propagation.
func (tb *TB) FArith(op Op, a, b *Term) *Term {
	if a.w != b.w {
		panic("FArith width")
	}
	if a.IsConst() && b.IsConst() {
		if a.w == 64 {
			x, y := math.Float64frombits(a.v), math.Float64frombits(b.v)
			var r float64
			switch op {
			case OpFAddRaw:
				r = x + y
			case OpFSubRaw:
				r = x - y
			case OpFMulRaw:
				r = x * y
			case OpFDivRaw:
				r = x / y
			}
			return tb.BV(64, math.Float64bits(r))
		}
		x, y := math.Float32frombits(uint32(a.v)), math.Float32frombits(uint32(b.v))
		var r float32
		switch op {
		case OpFAddRaw:
			r = x + y
		case OpFSubRaw:
			r = x - y
		case OpFMulRaw:
			r = x * y
		case OpFDivRaw:
			r = x / y
		}
		return tb.BV(32, uint64(math.Float32bits(r)))
	}
	raw := tb.mk(&Term{op: op, w: a.w, args: []*Term{a, b}})
	// x / 2^k and x * 2^k with a constant power of two are exact exponent adjustments while the
	// result stays normal: keep the solver out of fp.div/fp.mul for that case.
	if a.w == 64 && (op == OpFDivRaw || op == OpFMulRaw) {
		x, c := a, b
		if op == OpFMulRaw && a.IsConst() {
			x, c = b, a
		}
		if c.IsConst() && c.v&((1<<52)-1) == 0 && c.v>>63 == 0 {
			ce := int64(c.v>>52) & 0x7FF
			if ce > 0 && ce < 0x7FF {
				k := ce - 1023 // c = 2^k
				if op == OpFDivRaw {
					k = -k
				}
				exp := tb.ZExt(tb.Extract(x, 62, 52), 64)
				ne := tb.Add(exp, tb.BV(64, uint64(k)))
				okExp := tb.And(tb.And(tb.SLt(tb.BV(64, 0), exp), tb.SLt(exp, tb.BV(64, 0x7FF))),
					tb.And(tb.SLt(tb.BV(64, 0), ne), tb.SLt(ne, tb.BV(64, 0x7FF))))
				scaled := tb.Add(x, tb.BV(64, uint64(k)<<52))
				raw = tb.Ite(okExp, scaled, tb.Ite(tb.FIsZero(x), x, raw))
			}
		}
	}
	// invalid operations produce the default NaN; NaN operands propagate (first operand wins), quieted.
	var invalid *Term
	switch op {
	case OpFAddRaw:
		invalid = tb.And(tb.And(tb.FIsInf(a), tb.FIsInf(b)), tb.Not(tb.Eq(tb.fSign(a), tb.fSign(b))))
	case OpFSubRaw:
		invalid = tb.And(tb.And(tb.FIsInf(a), tb.FIsInf(b)), tb.Eq(tb.fSign(a), tb.fSign(b)))
	case OpFMulRaw:
		invalid = tb.Or(tb.And(tb.FIsInf(a), tb.FIsZero(b)), tb.And(tb.FIsZero(a), tb.FIsInf(b)))
	case OpFDivRaw:
		invalid = tb.Or(tb.And(tb.FIsInf(a), tb.FIsInf(b)), tb.And(tb.FIsZero(a), tb.FIsZero(b)))
	}
	return tb.Ite(tb.FIsNaN(a), tb.quiet(a),
		tb.Ite(tb.FIsNaN(b), tb.quiet(b),
			tb.Ite(invalid, tb.defaultNaN(a.w), raw)))
}

// FRound: mode 0 RoundToEven, 1 Trunc, 2 Floor, 3 Ceil, 4 Round (half away).
func (tb *TB) FRound(a *Term, mode int) *Term {
	if a.IsConst() && a.w == 64 {
		x := math.Float64frombits(a.v)
		var r float64
		switch mode {
		case 0:
			r = math.RoundToEven(x)
		case 1:
			r = math.Trunc(x)
		case 2:
			r = math.Floor(x)
		case 3:
			r = math.Ceil(x)
		case 4:
			r = math.Round(x)
		}
		return tb.BV(64, math.Float64bits(r))
	}
	raw := tb.mk(&Term{op: OpFRoundRaw, w: a.w, v: uint64(mode), args: []*Term{a}})
	// NaN and Inf and zero are returned unchanged by the Go implementations.
	keep := tb.Or(tb.FIsNaN(a), tb.Or(tb.FIsInf(a), tb.FIsZero(a)))
	return tb.Ite(keep, a, raw)
}

func (tb *TB) FSqrt(a *Term) *Term {
	if a.IsConst() && a.w == 64 {
		return tb.BV(64, math.Float64bits(math.Sqrt(math.Float64frombits(a.v))))
	}
	raw := tb.mk(&Term{op: OpFSqrtRaw, w: a.w, args: []*Term{a}})
	neg := tb.And(tb.fSign(a), tb.Not(tb.FIsZero(a)))
	return tb.Ite(tb.FIsNaN(a), tb.quiet(a), tb.Ite(neg, tb.defaultNaN(a.w), raw))
}

func (tb *TB) FFromInt(a *Term, signed bool, w int) *Term {
	if a.IsConst() && a.w <= 64 {
		var f float64
		if signed {
			f = float64(sext64(a.v, a.w))
		} else {
			f = float64(a.v)
		}
		if w == 64 {
			return tb.BV(64, math.Float64bits(f))
		}
		var f32 float32
		if signed {
			f32 = float32(sext64(a.v, a.w))
		} else {
			f32 = float32(a.v)
		}
		return tb.BV(32, uint64(math.Float32bits(f32)))
	}
	op := OpFFromUBV
	if signed {
		op = OpFFromSBV
	}
	return tb.mk(&Term{op: op, w: w, args: []*Term{a}})
}

// FToInt converts float bits a to an integer of width w with Go/amd64 semantics.
func (tb *TB) FToInt(a *Term, signed bool, w int) *Term {
	if a.IsConst() {
		var x float64
		if a.w == 64 {
			x = math.Float64frombits(a.v)
		} else {
			x = float64(math.Float32frombits(uint32(a.v)))
		}
		var r uint64
		if signed {
			switch w {
			case 64:
				r = uint64(int64(x))
			case 32:
				r = uint64(int32(x))
			case 16:
				r = uint64(int16(x))
			case 8:
				r = uint64(int8(x))
			}
		} else {
			switch w {
			case 64:
				r = uint64(x)
			case 32:
				r = uint64(uint32(x))
			case 16:
				r = uint64(uint16(x))
			case 8:
				r = uint64(uint8(x))
			}
		}
		return tb.BV(w, r)
	}
	// symbolic: convert through a 64-bit signed conversion (CVTTSD2SQ): exact when the
	// truncated value is in int64 range, 0x8000000000000000 otherwise (incl. NaN).
	a64 := a
	if a.w == 32 {
		a64 = tb.FToF(a, 64)
	}
	raw := tb.mk(&Term{op: OpFToSBVRaw, w: 64, args: []*Term{a64}})
	lo := tb.BV(64, math.Float64bits(-9223372036854775808.0))
	hi := tb.BV(64, math.Float64bits(9223372036854775808.0))
	inRange := tb.And(tb.FLe(lo, a64), tb.FLt(a64, hi))
	r64 := tb.Ite(inRange, raw, tb.BV(64, 0x8000000000000000))
	if !signed && w == 64 {
		// Go amd64: if x < 2^63 use the signed conversion, else convert x-2^63 and flip the top bit.
		big := tb.FLe(hi, a64)
		sub := tb.FArith(OpFSubRaw, a64, hi)
		raw2 := tb.mk(&Term{op: OpFToSBVRaw, w: 64, args: []*Term{sub}})
		in2 := tb.FLt(sub, hi)
		r2 := tb.BXor(tb.Ite(in2, raw2, tb.BV(64, 0x8000000000000000)), tb.BV(64, 0x8000000000000000))
		return tb.Ite(big, r2, r64)
	}
	return tb.Resize(r64, w, signed)
}

func (tb *TB) FToF(a *Term, w int) *Term {
	if a.w == w {
		return a
	}
	if a.IsConst() {
		if w == 64 {
			return tb.BV(64, math.Float64bits(float64(math.Float32frombits(uint32(a.v)))))
		}
		return tb.BV(32, uint64(math.Float32bits(float32(math.Float64frombits(a.v)))))
	}
	raw := tb.mk(&Term{op: OpFToFRaw, w: w, args: []*Term{a}})
	// NaN: keep sign and top payload bits, quieted (amd64 CVTSS2SD/CVTSD2SS)
	var nan *Term
	if w == 64 {
		sign := tb.Extract(a, 31, 31)
		payload := tb.Extract(a, 22, 0)
		nan = tb.quiet(tb.Concat(sign, tb.Concat(tb.BV(11, 0x7FF), tb.Concat(payload, tb.BV(29, 0)))))
	} else {
		sign := tb.Extract(a, 63, 63)
		payload := tb.Extract(a, 51, 29)
		nan = tb.quiet(tb.Concat(sign, tb.Concat(tb.BV(8, 0xFF), payload)))
	}
	return tb.Ite(tb.FIsNaN(a), nan, raw)
}

// UF applies an uninterpreted function (congruence only).
func (tb *TB) UF(name string, w int, args ...*Term) *Term {
	var sb strings.Builder
	fmt.Fprintf(&sb, "%s_n%d", name, len(args))
	fname := sb.String()
	if _, ok := tb.ufs[fname]; !ok {
		var d strings.Builder
		fmt.Fprintf(&d, "(declare-fun %s (", fname)
		for _, a := range args {
			d.WriteString(sortStr(a.w))
			d.WriteByte(' ')
		}
		fmt.Fprintf(&d, ") %s)", sortStr(w))
		tb.ufs[fname] = d.String()
	}
	return tb.mk(&Term{op: OpUF, w: w, name: fname, args: append([]*Term(nil), args...)})
}

func sortStr(w int) string {
	if w == 0 {
		return "Bool"
	}
	return fmt.Sprintf("(_ BitVec %d)", w)
}

// ---- bit tricks used by stubs ----

func (tb *TB) Clz(a *Term) *Term { // result width a.w
	if a.IsConst() && a.w <= 64 {
		return tb.BV(a.w, uint64(bits.LeadingZeros64(a.v)-(64-a.w)))
	}
	w := a.w
	res := tb.BV(w, uint64(w))
	for i := 0; i < w; i++ { // lowest set bit index i gives clz = w-1-i; highest wins
		bit := tb.Eq(tb.Extract(a, i, i), tb.BV(1, 1))
		res = tb.Ite(bit, tb.BV(w, uint64(w-1-i)), res)
	}
	return res
}

func (tb *TB) Ctz(a *Term) *Term {
	if a.IsConst() && a.w <= 64 {
		if a.v == 0 {
			return tb.BV(a.w, uint64(a.w))
		}
		return tb.BV(a.w, uint64(bits.TrailingZeros64(a.v)))
	}
	w := a.w
	res := tb.BV(w, uint64(w))
	for i := w - 1; i >= 0; i-- {
		bit := tb.Eq(tb.Extract(a, i, i), tb.BV(1, 1))
		res = tb.Ite(bit, tb.BV(w, uint64(i)), res)
	}
	return res
}

func (tb *TB) Popcount(a *Term) *Term {
	w := a.w
	res := tb.BV(w, 0)
	for i := 0; i < w; i++ {
		res = tb.Add(res, tb.ZExt(tb.Extract(a, i, i), w))
	}
	return res
}

// ---- printing ----

type printer struct {
	sb     strings.Builder
	names  map[*Term]string
	counts map[*Term]int
}

// SMT renders t as SMT-LIB2 with let-bindings for shared sub-terms.
func (tb *TB) SMT(t *Term) string {
	p := &printer{names: map[*Term]string{}, counts: map[*Term]int{}}
	p.count(t)
	var order []*Term
	seen := map[*Term]bool{}
	var visit func(x *Term)
	visit = func(x *Term) {
		if seen[x] {
			return
		}
		seen[x] = true
		for _, a := range x.args {
			visit(a)
		}
		if p.counts[x] > 1 && len(x.args) > 0 && x != t {
			order = append(order, x)
		}
	}
	visit(t)
	nlets := 0
	for i, x := range order {
		nm := fmt.Sprintf("l!%d", i)
		p.sb.WriteString("(let ((")
		p.sb.WriteString(nm)
		p.sb.WriteByte(' ')
		p.print(x, true)
		p.sb.WriteString(")) ")
		p.names[x] = nm
		nlets++
	}
	p.print(t, true)
	for i := 0; i < nlets; i++ {
		p.sb.WriteByte(')')
	}
	return p.sb.String()
}

func (p *printer) count(t *Term) {
	p.counts[t]++
	if p.counts[t] > 1 {
		return
	}
	for _, a := range t.args {
		p.count(a)
	}
}

func fpOf(w int, s string) string {
	eb, sb := fpParams(w)
	return fmt.Sprintf("((_ to_fp %d %d) %s)", eb, sb, s)
}

func (p *printer) sub(t *Term) string {
	q := &printer{names: p.names, counts: p.counts}
	q.print(t, false)
	return q.sb.String()
}

func (p *printer) print(t *Term, top bool) {
	if !top {
		if nm, ok := p.names[t]; ok {
			p.sb.WriteString(nm)
			return
		}
	}
	switch t.op {
	case OpConst:
		if t.w == 0 {
			if t.v == 1 {
				p.sb.WriteString("true")
			} else {
				p.sb.WriteString("false")
			}
			return
		}
		if t.w%4 == 0 {
			s := t.bigVal().Text(16)
			p.sb.WriteString("#x")
			for i := len(s); i < t.w/4; i++ {
				p.sb.WriteByte('0')
			}
			p.sb.WriteString(s)
		} else {
			s := t.bigVal().Text(2)
			p.sb.WriteString("#b")
			for i := len(s); i < t.w; i++ {
				p.sb.WriteByte('0')
			}
			p.sb.WriteString(s)
		}
	case OpVar:
		p.sb.WriteString(smtSym(t.name))
	case OpExtract:
		fmt.Fprintf(&p.sb, "((_ extract %d %d) ", t.v, t.p)
		p.print(t.args[0], false)
		p.sb.WriteByte(')')
	case OpZExt:
		fmt.Fprintf(&p.sb, "((_ zero_extend %d) ", t.p)
		p.print(t.args[0], false)
		p.sb.WriteByte(')')
	case OpSExt:
		fmt.Fprintf(&p.sb, "((_ sign_extend %d) ", t.p)
		p.print(t.args[0], false)
		p.sb.WriteByte(')')
	case OpFAddRaw, OpFSubRaw, OpFMulRaw, OpFDivRaw:
		nm := map[Op]string{OpFAddRaw: "fp.add", OpFSubRaw: "fp.sub", OpFMulRaw: "fp.mul", OpFDivRaw: "fp.div"}[t.op]
		fmt.Fprintf(&p.sb, "(fp.to_ieee_bv (%s RNE %s %s))", nm, fpOf(t.w, p.sub(t.args[0])), fpOf(t.w, p.sub(t.args[1])))
	case OpFRoundRaw:
		rm := []string{"RNE", "RTZ", "RTN", "RTP", "RNA"}[t.v]
		fmt.Fprintf(&p.sb, "(fp.to_ieee_bv (fp.roundToIntegral %s %s))", rm, fpOf(t.w, p.sub(t.args[0])))
	case OpFSqrtRaw:
		fmt.Fprintf(&p.sb, "(fp.to_ieee_bv (fp.sqrt RNE %s))", fpOf(t.w, p.sub(t.args[0])))
	case OpFFromSBV:
		eb, sb := fpParams(t.w)
		fmt.Fprintf(&p.sb, "(fp.to_ieee_bv ((_ to_fp %d %d) RNE %s))", eb, sb, p.sub(t.args[0]))
	case OpFFromUBV:
		eb, sb := fpParams(t.w)
		fmt.Fprintf(&p.sb, "(fp.to_ieee_bv ((_ to_fp_unsigned %d %d) RNE %s))", eb, sb, p.sub(t.args[0]))
	case OpFToSBVRaw:
		fmt.Fprintf(&p.sb, "((_ fp.to_sbv %d) RTZ %s)", t.w, fpOf(t.args[0].w, p.sub(t.args[0])))
	case OpFToFRaw:
		eb, sb := fpParams(t.w)
		fmt.Fprintf(&p.sb, "(fp.to_ieee_bv ((_ to_fp %d %d) RNE %s))", eb, sb, fpOf(t.args[0].w, p.sub(t.args[0])))
	case OpUF:
		if len(t.args) == 0 {
			p.sb.WriteString(t.ufName())
			return
		}
		p.sb.WriteByte('(')
		p.sb.WriteString(t.ufName())
		for _, a := range t.args {
			p.sb.WriteByte(' ')
			p.print(a, false)
		}
		p.sb.WriteByte(')')
	default:
		nm, ok := opNames[t.op]
		if !ok {
			panic(fmt.Sprintf("print: unknown op %d", t.op))
		}
		p.sb.WriteByte('(')
		p.sb.WriteString(nm)
		for _, a := range t.args {
			p.sb.WriteByte(' ')
			p.print(a, false)
		}
		p.sb.WriteByte(')')
	}
}

func (t *Term) ufName() string {
	// name may carry the hash-cons suffix for >3 args; strip it
	if i := strings.IndexByte(t.name, ','); i >= 0 {
		return t.name[:i]
	}
	return t.name
}

func smtSym(s string) string { return "|" + s + "|" }

// Vars collects the free variables of t into set.
func collectVars(t *Term, seen map[*Term]bool, out *[]*Term) {
	if seen[t] {
		return
	}
	seen[t] = true
	if t.op == OpVar {
		*out = append(*out, t)
	}
	for _, a := range t.args {
		collectVars(a, seen, out)
	}
}

func collectUFs(t *Term, seen map[*Term]bool, out map[string]bool) {
	if seen[t] {
		return
	}
	seen[t] = true
	if t.op == OpUF {
		out[t.ufName()] = true
	}
	for _, a := range t.args {
		collectUFs(a, seen, out)
	}
}

func (t *Term) String() string {
	if t.IsConst() {
		if t.w == 0 {
			return fmt.Sprint(t.v == 1)
		}
		if t.big != nil {
			return "0x" + t.big.Text(16)
		}
		return fmt.Sprintf("%d", t.v)
	}
	if t.op == OpVar {
		return t.name
	}
	return fmt.Sprintf("<%s#%d>", opNames[t.op], t.id)
}
