package main

import (
	"encoding/json"
	"flag"
	"fmt"
	"os"
	"os/exec"
	"path/filepath"
	"regexp"
	"sort"
	"strconv"
	"strings"
	"time"

	"golang.org/x/tools/go/ssa"
)

// verifDir is the root of the verification tree (harnesses, evidence, scratch); bin/vcheck sets
// VERIF_DIR to the directory it lives in so that a snapshot copy works on its own files.
var verifDir = func() string {
	if d := os.Getenv("VERIF_DIR"); d != "" {
		return d
	}
	return "/verif"
}()

func main() {
	if len(os.Args) < 2 {
		fmt.Fprintln(os.Stderr, "usage: gosym check <ID> [--tier quick|thorough] [--only re] | gosym replay <ID> <tape>")
		os.Exit(2)
	}
	switch os.Args[1] {
	case "check":
		os.Exit(cmdCheck(os.Args[2:]))
	case "replay":
		os.Exit(cmdReplay(os.Args[2:]))
	default:
		fmt.Fprintln(os.Stderr, "unknown command", os.Args[1])
		os.Exit(2)
	}
}

type checkOpts struct {
	id       string
	tier     string
	only     *regexp.Regexp
	verbose  bool
	workers  int
	noNative bool
	seed     int64
}

func cmdCheck(args []string) int {
	fs := flag.NewFlagSet("check", flag.ExitOnError)
	tier := fs.String("tier", "", "quick|thorough")
	only := fs.String("only", "", "regexp selecting harness functions")
	verbose := fs.Bool("v", false, "verbose")
	workers := fs.Int("workers", 16, "worker count")
	noNative := fs.Bool("no-native", false, "skip native replay/validation (development only; evidence is marked)")
	if len(args) < 1 {
		fmt.Fprintln(os.Stderr, "check: need property id")
		return 2
	}
	id := args[0]
	fs.Parse(args[1:])
	o := &checkOpts{id: id, tier: *tier, verbose: *verbose, workers: *workers, noNative: *noNative}
	if o.tier == "" {
		o.tier = os.Getenv("VERIF_TIER")
	}
	if o.tier != "thorough" {
		o.tier = "quick"
	}
	if s := os.Getenv("VERIF_SEED"); s != "" {
		o.seed, _ = strconv.ParseInt(s, 10, 64)
	}
	if *only != "" {
		o.only = regexp.MustCompile(*only)
	}
	return runCheck(o)
}

type groupRun struct {
	g       *Group
	ld      *Loaded
	results []*HarnessResult
	err     error
	scratch string
}

func runCheck(o *checkOpts) int {
	t0 := time.Now()
	hdir := filepath.Join(verifDir, "harness", o.id)
	matches, _ := filepath.Glob(filepath.Join(hdir, "*.go"))
	sort.Strings(matches)
	ev := &Evidence{PropertyID: o.id, Tier: o.tier, Seed: o.seed, Level: "model_checking"}
	outDir := filepath.Join(verifDir, "out", o.id)
	os.RemoveAll(outDir)
	os.MkdirAll(outDir, 0o755)
	if len(matches) == 0 {
		fmt.Printf("INCONCLUSIVE property=%s reason=no harness files in %s\n", o.id, hdir)
		ev.inconclusive("no harness files")
		ev.write(time.Since(t0))
		return 0
	}
	var files []*HarnessFile
	for _, m := range matches {
		hf, err := parseHarnessFile(m)
		if err != nil {
			fmt.Printf("INCONCLUSIVE property=%s reason=%v\n", o.id, err)
			ev.inconclusive(err.Error())
			ev.write(time.Since(t0))
			return 0
		}
		files = append(files, hf)
	}
	groups := groupFiles(files)
	known := loadKnownFindings(filepath.Join(verifDir, "known_findings.txt"))
	thorough := o.tier == "thorough"
	var runs []*groupRun
	for gi, g := range groups {
		gr := &groupRun{g: g, scratch: filepath.Join(outDir, fmt.Sprintf("g%d", gi))}
		os.MkdirAll(gr.scratch, 0o755)
		runs = append(runs, gr)
		tl := time.Now()
		ld, err := loadGroup(g, gr.scratch)
		if err != nil {
			gr.err = err
			continue
		}
		ld.loadS = time.Since(tl).Seconds()
		gr.ld = ld
		cfg := defaultCfg()
		cfg.Backend = g.Backend
		cfg.Workers = o.workers
		cfg.NoIfConvert = g.NoIfConv
		cfg.LazyFork = g.LazyFork
		cfg.Concretize = g.Concretize
		cfg.WallS = 900
		cfg.Progress = o.verbose
		if thorough {
			cfg.Witnesses = 64
			cfg.MaxPaths = 4_000_000
			cfg.WallS = 3000
		}
		for k, v := range g.Budget {
			switch k {
			case "steps":
				cfg.MaxSteps = v
			case "paths":
				cfg.MaxPaths = v
			case "query_ms":
				cfg.QueryMS = v
			case "concretise":
				cfg.MaxConcretise = v
			case "alloc":
				cfg.MaxAlloc = v
			case "wall_s":
				if !thorough {
					cfg.WallS = v
				}
			case "wall_s_thorough":
				if thorough {
					cfg.WallS = v
				}
			case "workers":
				if v < cfg.Workers {
					cfg.Workers = v
				}
			}
		}
		pool := &interpPool{ld: ld, cfg: cfg, thorough: thorough, ins: map[int]*Interp{}}
		for _, fn := range ld.harnesses {
			if o.only != nil && !o.only.MatchString(fn.Name()) {
				continue
			}
			if !thorough && g.Thorough[fn.Name()] {
				continue
			}
			if fn.Signature.Params().Len() != 0 {
				continue
			}
			res := exploreHarness(ld, fn, cfg, thorough, pool)
			gr.results = append(gr.results, res)
			if o.verbose {
				printResult(res)
			}
		}
		pool.close()
	}
	// native confirmation of counterexamples and translator validation of path witnesses
	exit := 0
	var lines []string
	for _, gr := range runs {
		if gr.err != nil {
			msg := fmt.Sprintf("load failed for %s: %v", gr.g.Pkg, gr.err)
			lines = append(lines, fmt.Sprintf("INCONCLUSIVE property=%s reason=%s", o.id, oneLine(msg)))
			ev.inconclusive(msg)
			continue
		}
		if !o.noNative {
			if err := nativeRun(o, gr); err != nil {
				msg := "native run failed: " + err.Error()
				lines = append(lines, fmt.Sprintf("INCONCLUSIVE property=%s reason=%s", o.id, oneLine(msg)))
				ev.inconclusive(msg)
			}
		} else {
			ev.inconclusive("native replay/validation skipped (--no-native)")
		}
		for _, res := range gr.results {
			ev.addHarness(gr, res)
			var all []*Violation
			var labels []string
			for l := range res.Asserts {
				labels = append(labels, l)
			}
			sort.Strings(labels)
			for _, l := range labels {
				all = append(all, res.Asserts[l].Violations...)
			}
			all = append(all, res.Panics...)
			reported := map[string]bool{}
			for _, v := range all {
				if gr.g.EngineOnly[res.Name] {
					msg := fmt.Sprintf("MODEL-LINK harness=%s label=%s failed: an engine-only lemma that ties a harness-side model to the real code no longer holds (inputs %s); the dependent harnesses claim nothing until the model is updated", v.Harness, v.Label, tapeString(v.Tape))
					lines = append(lines, "INCONCLUSIVE property="+o.id+" reason="+msg)
					ev.inconclusive(msg)
					continue
				}
				if !v.Confirmed && !o.noNative {
					msg := fmt.Sprintf("ENCODER-MISMATCH harness=%s label=%s: solver counterexample did not reproduce natively (native outcome %q)", v.Harness, v.Label, v.Native)
					lines = append(lines, msg)
					ev.inconclusive(msg)
					ev.EncoderMismatches++
					continue
				}
				if k := known.match(o.id, v); k != nil {
					v.Known = k.What
					key := "K" + k.raw
					if !reported[key] {
						reported[key] = true
						lines = append(lines, fmt.Sprintf("KNOWN-FINDING: property=%s %s", o.id, k.What))
					}
					ev.KnownFindings++
					continue
				}
				key := v.Harness + "|" + v.Label
				if !reported[key] {
					reported[key] = true
					lines = append(lines, fmt.Sprintf("VIOLATION property=%s replay=%s harness=%s label=%q %s", o.id, v.TapeFile, v.Harness, v.Label, v.Msg))
				}
				ev.Violations++
				exit = 1
			}
			var reasons []string
			for why := range res.Inconclusive {
				reasons = append(reasons, why)
			}
			sort.Strings(reasons)
			for _, why := range reasons {
				lines = append(lines, fmt.Sprintf("INCONCLUSIVE property=%s harness=%s reason=%s (x%d)", o.id, res.Name, oneLine(why), res.Inconclusive[why]))
				ev.inconclusive(res.Name + ": " + why)
			}
			// vacuity: a harness with no completed path or an unreached tag declared in source
			if res.Paths-countBad(res) <= 0 {
				msg := fmt.Sprintf("%s: vacuous (no feasible path reached the end)", res.Name)
				lines = append(lines, fmt.Sprintf("INCONCLUSIVE property=%s reason=%s", o.id, msg))
				ev.inconclusive(msg)
			}
			for _, tag := range declaredReachTags(gr, res.Name) {
				if res.Reached[tag] == 0 {
					msg := fmt.Sprintf("%s: vacuity witness %q unreachable", res.Name, tag)
					lines = append(lines, fmt.Sprintf("INCONCLUSIVE property=%s reason=%s", o.id, msg))
					ev.inconclusive(msg)
				}
			}
		}
	}
	for _, l := range lines {
		fmt.Println(l)
	}
	ev.finish()
	ev.write(time.Since(t0))
	fmt.Printf("property=%s tier=%s harnesses=%d paths=%d queries=%d violations=%d known=%d inconclusive=%d validated=%d wall=%.1fs\n",
		o.id, o.tier, ev.nHarness, ev.Coverage.States, ev.Coverage.Transitions, ev.Violations, ev.KnownFindings, len(ev.Inconclusive), ev.Coverage.TracesValidated, time.Since(t0).Seconds())
	return exit
}

func countBad(res *HarnessResult) int {
	n := 0
	for why, c := range res.Inconclusive {
		if strings.HasPrefix(why, "budget") || strings.HasPrefix(why, "unsupported") || strings.HasPrefix(why, "internal") {
			n += c
		}
	}
	return n
}

func oneLine(s string) string {
	s = strings.ReplaceAll(s, "\n", " | ")
	if len(s) > 600 {
		s = s[:600] + "..."
	}
	return s
}

var reachRe = regexp.MustCompile(`vpReach\("([^"]+)"\)`)

// declaredReachTags scans the harness source for vpReach tags inside the named function.
func declaredReachTags(gr *groupRun, harness string) []string {
	var tags []string
	for _, f := range gr.g.Files {
		src, err := os.ReadFile(f.Path)
		if err != nil {
			continue
		}
		s := string(src)
		i := strings.Index(s, "func "+harness+"(")
		if i < 0 {
			continue
		}
		rest := s[i:]
		if j := strings.Index(rest[1:], "\nfunc "); j >= 0 {
			rest = rest[:j+1]
		}
		for _, m := range reachRe.FindAllStringSubmatch(rest, -1) {
			tags = append(tags, m[1])
		}
	}
	return tags
}

func printResult(r *HarnessResult) {
	fmt.Printf("== %s: paths=%d dead=%d forks=%d modelhits=%d ifconv=%d concretised=%d steps=%d queries=%d (sat %d unsat %d unknown %d) solver=%.2fs wall=%.2fs\n",
		r.Name, r.Paths, r.DeadPaths, r.Forks, r.ModelHits, r.IfConverted, r.Concretisations, r.Steps, r.Solver.Queries, r.Solver.Sat, r.Solver.Unsat, r.Solver.Unknown,
		float64(r.Solver.SolverNS)/1e9, r.WallS)
	var labels []string
	for l := range r.Asserts {
		labels = append(labels, l)
	}
	sort.Strings(labels)
	for _, l := range labels {
		a := r.Asserts[l]
		fmt.Printf("   assert %-40q checked=%d trivial=%d proved=%d failed=%d unknown=%d\n", l, a.Checked, a.Trivial, a.Proved, a.Failed, a.Unknown)
		for _, v := range a.Violations {
			fmt.Printf("      cex tape=%s obs=%v\n", tapeString(v.Tape), v.Observes)
		}
	}
	for _, v := range r.Panics {
		fmt.Printf("   PANIC %s tape=%s\n", v.Msg, tapeString(v.Tape))
	}
	for why, n := range r.Inconclusive {
		fmt.Printf("   inconclusive x%d: %s\n", n, why)
	}
	for e, n := range r.Events {
		fmt.Printf("   event x%d: %s\n", n, e)
	}
	fmt.Printf("   reached=%v witnesses=%d\n", r.Reached, len(r.Witnesses))
}

func tapeString(t []tapeEntry) string {
	var sb strings.Builder
	for i, e := range t {
		if i > 0 {
			sb.WriteByte(' ')
		}
		if e.Name != "" {
			fmt.Fprintf(&sb, "%s=", e.Name)
		}
		switch e.Kind {
		case "Int64", "Int", "Shape":
			fmt.Fprintf(&sb, "%d", int64(e.Val))
		case "Int32":
			fmt.Fprintf(&sb, "%d", int32(e.Val))
		case "Int16":
			fmt.Fprintf(&sb, "%d", int16(e.Val))
		case "Int8":
			fmt.Fprintf(&sb, "%d", int8(e.Val))
		case "Float64":
			fmt.Fprintf(&sb, "%v(0x%x)", f64frombits(e.Val), e.Val)
		default:
			fmt.Fprintf(&sb, "%d", e.Val)
		}
	}
	return sb.String()
}

// ---- native execution ----

type nativeTape struct {
	Harness  string   `json:"harness"`
	Vals     []uint64 `json:"vals"`
	Thorough bool     `json:"thorough"`
}

type nativeOut struct {
	Outcome string      `json:"outcome"`
	Obs     [][2]string `json:"obs"`
	Reached []string    `json:"reached"`
}

func tapeVals(t []tapeEntry) []uint64 {
	v := make([]uint64, len(t))
	for i, e := range t {
		v[i] = e.Val
	}
	return v
}

func runNativeTapes(gr *groupRun, tapes []nativeTape) ([]nativeOut, error) {
	var names []string
	for _, fn := range gr.ld.allHarnesses {
		if fn.Signature.Params().Len() == 0 {
			names = append(names, fn.Name())
		}
	}
	var hm strings.Builder
	for _, n := range names {
		fmt.Fprintf(&hm, "\t\t%q: %s,\n", n, n)
	}
	src := strings.Replace(vpReplayTestTmpl, "PKGNAME", gr.g.PkgName, 1)
	src = strings.Replace(src, "HARNESSMAP", hm.String(), 1)
	testFile := filepath.Join(gr.scratch, "zz_verif_replay_test.go")
	if err := os.WriteFile(testFile, []byte(src), 0o644); err != nil {
		return nil, err
	}
	ov := map[string]string{}
	for k, v := range gr.ld.overlay {
		ov[k] = v
	}
	ov[filepath.Join(gr.ld.pkgDir, "zz_verif_replay_test.go")] = testFile
	ovJSON, _ := json.Marshal(map[string]interface{}{"Replace": ov})
	ovFile := filepath.Join(gr.scratch, "overlay.json")
	os.WriteFile(ovFile, ovJSON, 0o644)
	tapesFile := filepath.Join(gr.scratch, "tapes.json")
	outFile := filepath.Join(gr.scratch, "native_out.json")
	os.Remove(outFile)
	tb, _ := json.Marshal(tapes)
	os.WriteFile(tapesFile, tb, 0o644)
	args := []string{"test", "-vet=off", "-count=1", "-overlay", ovFile, "-run", "^TestVpReplay$", "-timeout", "20m"}
	if gr.g.Tags != "" {
		args = append(args, "-tags", gr.g.Tags)
	}
	args = append(args, gr.g.Pkg)
	cmd := exec.Command("go", args...)
	cmd.Dir = repoDir
	var env []string
	for _, e := range os.Environ() {
		if strings.HasPrefix(e, "GOFLAGS=") || strings.HasPrefix(e, "GOTOOLCHAIN=") || strings.HasPrefix(e, "PATH=") {
			continue
		}
		env = append(env, e)
	}
	env = append(env, "PATH="+nativePath(), "GOFLAGS=", "GOPROXY=off", "GOSUMDB=off", "VP_TAPES="+tapesFile, "VP_OUT="+outFile)
	cmd.Env = env
	out, err := cmd.CombinedOutput()
	os.WriteFile(filepath.Join(gr.scratch, "native.log"), out, 0o644)
	data, rerr := os.ReadFile(outFile)
	if rerr != nil {
		tail := string(out)
		if len(tail) > 1500 {
			tail = tail[len(tail)-1500:]
		}
		return nil, fmt.Errorf("go test produced no output file (%v): %s", err, tail)
	}
	var outs []nativeOut
	if err := json.Unmarshal(data, &outs); err != nil {
		return nil, err
	}
	if len(outs) != len(tapes) {
		return nil, fmt.Errorf("native run returned %d results for %d tapes", len(outs), len(tapes))
	}
	return outs, nil
}

// nativePath removes the go1.26.8 toolchain directory from PATH so that native replays use the
// repository's own toolchain selection (default go + toolchain switch), like the baseline.
func nativePath() string {
	var keep []string
	for _, d := range filepath.SplitList(os.Getenv("PATH")) {
		if strings.Contains(d, "/opt/veriftools/go1.26") {
			continue
		}
		keep = append(keep, d)
	}
	return strings.Join(keep, string(os.PathListSeparator))
}

func nativeRun(o *checkOpts, gr *groupRun) error {
	var tapes []nativeTape
	type ref struct {
		v *Violation
		w *Witness
	}
	var refs []ref
	thorough := o.tier == "thorough"
	for _, res := range gr.results {
		if gr.g.EngineOnly[res.Name] {
			continue
		}
		for _, a := range res.Asserts {
			for _, v := range a.Violations {
				tapes = append(tapes, nativeTape{v.Harness, tapeVals(v.Tape), thorough})
				refs = append(refs, ref{v: v})
			}
		}
		for _, v := range res.Panics {
			tapes = append(tapes, nativeTape{v.Harness, tapeVals(v.Tape), thorough})
			refs = append(refs, ref{v: v})
		}
		for _, w := range res.Witnesses {
			if w.UFDependent {
				continue // the model fixes a checksum stub's value; the real checksum of these bytes differs
			}
			tapes = append(tapes, nativeTape{w.Harness, tapeVals(w.Tape), thorough})
			refs = append(refs, ref{w: w})
		}
	}
	if len(tapes) == 0 {
		return nil
	}
	outs, err := runNativeTapes(gr, tapes)
	if err != nil {
		return err
	}
	nv := 0
	for i, r := range refs {
		out := outs[i]
		if r.v != nil {
			r.v.Native = out.Outcome
			switch r.v.Kind {
			case "assert":
				r.v.Confirmed = out.Outcome == "fail:"+r.v.Label
			case "panic":
				r.v.Confirmed = strings.HasPrefix(out.Outcome, "panic:")
				if r.v.Confirmed {
					r.v.Msg = out.Outcome
				}
			}
			nv++
			tf := filepath.Join(verifDir, "out", o.id, fmt.Sprintf("%s.%d.tape.json", r.v.Harness, nv))
			b, _ := json.MarshalIndent(map[string]interface{}{"property": o.id, "harness": r.v.Harness, "label": r.v.Label, "kind": r.v.Kind,
				"pkg": gr.g.Pkg, "tags": gr.g.Tags, "tier": o.tier, "tape": r.v.Tape, "observes": r.v.Observes, "native_outcome": out.Outcome}, "", " ")
			os.WriteFile(tf, b, 0o644)
			r.v.TapeFile = tf
			continue
		}
		w := r.w
		w.Native = out.Outcome
		w.Agrees = out.Outcome == "ok" && sameObs(w.Observes, out.Obs) && sameStrings(w.Reached, out.Reached)
		if !w.Agrees {
			w.Native = fmt.Sprintf("%s obs=%v reached=%v", out.Outcome, out.Obs, out.Reached)
		}
	}
	return nil
}

func sameObs(a, b [][2]string) bool {
	if len(a) != len(b) {
		return false
	}
	for i := range a {
		if a[i] != b[i] {
			return false
		}
	}
	return true
}

func sameStrings(a, b []string) bool {
	bs := append([]string(nil), b...)
	sort.Strings(bs)
	// de-duplicate native reached list
	var u []string
	for i, s := range bs {
		if i == 0 || s != bs[i-1] {
			u = append(u, s)
		}
	}
	if len(a) != len(u) {
		return false
	}
	for i := range a {
		if a[i] != u[i] {
			return false
		}
	}
	return true
}

func cmdReplay(args []string) int {
	if len(args) < 2 {
		fmt.Fprintln(os.Stderr, "replay: need <ID> <tape.json>")
		return 2
	}
	id, tapeFile := args[0], args[1]
	data, err := os.ReadFile(tapeFile)
	if err != nil {
		fmt.Fprintln(os.Stderr, err)
		return 2
	}
	var tf struct {
		Harness string      `json:"harness"`
		Label   string      `json:"label"`
		Kind    string      `json:"kind"`
		Pkg     string      `json:"pkg"`
		Tags    string      `json:"tags"`
		Tier    string      `json:"tier"`
		Tape    []tapeEntry `json:"tape"`
	}
	if err := json.Unmarshal(data, &tf); err != nil {
		fmt.Fprintln(os.Stderr, err)
		return 2
	}
	hdir := filepath.Join(verifDir, "harness", id)
	matches, _ := filepath.Glob(filepath.Join(hdir, "*.go"))
	var files []*HarnessFile
	for _, m := range matches {
		hf, err := parseHarnessFile(m)
		if err != nil {
			fmt.Fprintln(os.Stderr, err)
			return 2
		}
		files = append(files, hf)
	}
	scratch := filepath.Join(verifDir, "out", id, "replay")
	os.MkdirAll(scratch, 0o755)
	for _, g := range groupFiles(files) {
		if g.Pkg != tf.Pkg || g.Tags != tf.Tags {
			continue
		}
		ld, err := loadGroup(g, scratch)
		if err != nil {
			fmt.Fprintln(os.Stderr, err)
			return 2
		}
		gr := &groupRun{g: g, ld: ld, scratch: scratch}
		outs, err := runNativeTapes(gr, []nativeTape{{tf.Harness, tapeVals(tf.Tape), tf.Tier == "thorough"}})
		if err != nil {
			fmt.Fprintln(os.Stderr, err)
			return 2
		}
		fmt.Printf("harness=%s tape=%s\nnative outcome: %s\nobservations: %v\n", tf.Harness, tapeString(tf.Tape), outs[0].Outcome, outs[0].Obs)
		if outs[0].Outcome != "ok" {
			return 1
		}
		return 0
	}
	fmt.Fprintln(os.Stderr, "no harness group matches the tape")
	return 2
}

var _ = ssa.InstantiateGenerics
