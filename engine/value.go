package main

import (
	"fmt"
	"go/types"
	"strings"

	"golang.org/x/tools/go/ssa"
)

// Value is one of: *Term (scalar), Pointer, SliceV, StrV, *StructV, *ArrayV, IfaceV,
// *ClosureV, *ssa.Function, *ssa.Builtin, MapV, ChanV, TupleV, OpaqueV, *ErrV, Poison, *RangeIter.
type Value interface{}

type Object struct {
	id   int
	v    Value
	name string
}

type Pointer struct {
	obj  *Object
	path []int
}

type SliceV struct {
	obj           *Object
	path          []int // path to the *ArrayV inside obj
	off, len, cap int
}

type StrV struct{ b []*Term }

type StructV struct{ f []Value }
type ArrayV struct{ e []Value }

type IfaceV struct {
	t types.Type // nil = nil interface
	v Value
}

type ClosureV struct {
	fn  *ssa.Function
	env []Value
}

type mapEntry struct {
	k, v Value
}
type MapObj struct {
	id      int
	entries []mapEntry
}
type MapV struct{ m *MapObj }

type ChanObj struct {
	id     int
	buf    []Value
	cap    int
	closed bool
}
type ChanV struct{ c *ChanObj }

type TupleV []Value

type OpaqueV struct{ tag string }

// ErrV is the model of errors produced by errors.New / fmt.Errorf stubs.
type ErrV struct {
	id      int
	msg     string
	wrapped []Value // IfaceV errors wrapped with %w
}

type Poison struct{ why string }

type RangeIter struct {
	str  *StrV
	m    *MapObj
	keys []mapEntry
	pos  int
}

func isNilPointer(p Pointer) bool { return p.obj == nil }

func copyVal(v Value) Value {
	switch x := v.(type) {
	case *StructV:
		n := &StructV{f: make([]Value, len(x.f))}
		for i, f := range x.f {
			n.f[i] = copyVal(f)
		}
		return n
	case *ArrayV:
		n := &ArrayV{e: make([]Value, len(x.e))}
		for i, f := range x.e {
			n.e[i] = copyVal(f)
		}
		return n
	}
	return v
}

func under(t types.Type) types.Type { return types.Unalias(t).Underlying() }

func deref(t types.Type) types.Type {
	if p, ok := under(t).(*types.Pointer); ok {
		return p.Elem()
	}
	panic(fmt.Sprintf("deref of non-pointer %v", t))
}

type unsupported struct{ why string }

func unsupp(format string, a ...interface{}) {
	panic(unsupported{fmt.Sprintf(format, a...)})
}

func basicWidth(b *types.Basic) int {
	switch b.Kind() {
	case types.Bool, types.UntypedBool:
		return 0
	case types.Int8, types.Uint8:
		return 8
	case types.Int16, types.Uint16:
		return 16
	case types.Int32, types.Uint32, types.Float32, types.UntypedRune:
		return 32
	case types.Int, types.Uint, types.Int64, types.Uint64, types.Uintptr, types.Float64, types.UntypedInt, types.UntypedFloat:
		return 64
	}
	return -1
}

func isSigned(b *types.Basic) bool {
	return b.Info()&types.IsInteger != 0 && b.Info()&types.IsUnsigned == 0
}
func isFloat(b *types.Basic) bool { return b.Info()&types.IsFloat != 0 }

func (in *Interp) zero(t types.Type) Value {
	switch u := under(t).(type) {
	case *types.Basic:
		switch {
		case u.Kind() == types.String || u.Kind() == types.UntypedString:
			return StrV{}
		case u.Kind() == types.UnsafePointer:
			return Pointer{}
		case u.Kind() == types.UntypedNil:
			return nil
		case u.Info()&types.IsComplex != 0:
			unsupp("complex type")
		}
		w := basicWidth(u)
		if w < 0 {
			unsupp("zero of basic %v", u)
		}
		if w == 0 {
			return in.tb.ff
		}
		return in.tb.BV(w, 0)
	case *types.Pointer:
		return Pointer{}
	case *types.Slice:
		return SliceV{}
	case *types.Struct:
		s := &StructV{f: make([]Value, u.NumFields())}
		for i := range s.f {
			s.f[i] = in.zero(u.Field(i).Type())
		}
		return s
	case *types.Array:
		n := int(u.Len())
		a := &ArrayV{e: make([]Value, n)}
		if n > 0 {
			z := in.zero(u.Elem())
			switch z.(type) {
			case *StructV, *ArrayV:
				for i := range a.e {
					a.e[i] = copyVal(z)
				}
			default:
				for i := range a.e {
					a.e[i] = z
				}
			}
		}
		return a
	case *types.Interface:
		return IfaceV{}
	case *types.Map:
		return MapV{}
	case *types.Chan:
		return ChanV{}
	case *types.Signature:
		return (*ssa.Function)(nil)
	case *types.Tuple:
		tv := make(TupleV, u.Len())
		for i := range tv {
			tv[i] = in.zero(u.At(i).Type())
		}
		return tv
	}
	unsupp("zero of %v", t)
	return nil
}

func (in *Interp) newObject(v Value, name string) *Object {
	in.nextObj++
	return &Object{id: in.nextObj, v: v, name: name}
}

func (in *Interp) resolve(p Pointer) (parent Value, idx int, cur Value) {
	if p.obj == nil {
		in.goPanicRuntime("invalid memory address or nil pointer dereference")
	}
	cur = p.obj.v
	idx = -1
	for _, i := range p.path {
		parent = cur
		idx = i
		switch c := cur.(type) {
		case *StructV:
			cur = c.f[i]
		case *ArrayV:
			if i < 0 || i >= len(c.e) {
				panic(fmt.Sprintf("internal: path index %d out of range %d", i, len(c.e)))
			}
			cur = c.e[i]
		case Poison:
			unsupp("access through poisoned variable (%s): %s", p.obj.name, c.why)
		default:
			panic(fmt.Sprintf("internal: bad path through %T", cur))
		}
	}
	return
}

func (in *Interp) load(p Pointer) Value {
	_, _, cur := in.resolve(p)
	if in.spec != nil && len(in.spec.writes) > 0 {
		if i, ok := in.spec.idx[specKey(p)]; ok {
			return in.spec.writes[i].new
		}
		if _, scalar := cur.(*Term); !scalar {
			panic(specAbort{}) // aggregate load that might overlap a speculative store
		}
	}
	if _, ok := cur.(Poison); ok && !in.lenient {
		unsupp("read of poisoned variable (%s): %s", p.obj.name, cur.(Poison).why)
	}
	return copyVal(cur)
}

func (in *Interp) store(p Pointer, v Value) {
	if in.spec != nil {
		nt, ok1 := v.(*Term)
		_, _, cur := in.resolve(p)
		ot, ok2 := cur.(*Term)
		if !ok1 || !ok2 || nt.w != ot.w {
			panic(specAbort{})
		}
		k := specKey(p)
		if i, ok := in.spec.idx[k]; ok {
			in.spec.writes[i].new = nt
		} else {
			in.spec.idx[k] = len(in.spec.writes)
			in.spec.writes = append(in.spec.writes, specWrite{p: p, key: k, old: ot, new: nt})
		}
		return
	}
	parent, idx, _ := in.resolve(p)
	v = copyVal(v)
	if idx < 0 {
		p.obj.v = v
		return
	}
	switch c := parent.(type) {
	case *StructV:
		c.f[idx] = v
	case *ArrayV:
		c.e[idx] = v
	}
}

func extendPath(path []int, i int) []int {
	n := make([]int, len(path)+1)
	copy(n, path)
	n[len(path)] = i
	return n
}

func (in *Interp) sliceArray(s SliceV) *ArrayV {
	if s.obj == nil {
		return &ArrayV{}
	}
	_, _, cur := in.resolve(Pointer{s.obj, s.path})
	a, ok := cur.(*ArrayV)
	if !ok {
		panic(fmt.Sprintf("internal: slice backing is %T", cur))
	}
	return a
}

func (in *Interp) sliceElems(s SliceV) []Value {
	if s.obj == nil {
		return nil
	}
	return in.sliceArray(s).e[s.off : s.off+s.len]
}

func (in *Interp) makeSlice(elem types.Type, n, c int) SliceV {
	arr := &ArrayV{e: make([]Value, c)}
	if c > 0 {
		z := in.zero(elem)
		for i := range arr.e {
			arr.e[i] = copyVal(z)
		}
	}
	obj := in.newObject(arr, "make")
	return SliceV{obj: obj, off: 0, len: n, cap: c}
}

func (in *Interp) sliceFromValues(vs []Value) SliceV {
	arr := &ArrayV{e: vs}
	return SliceV{obj: in.newObject(arr, "slice"), len: len(vs), cap: len(vs)}
}

func (in *Interp) strConst(s string) StrV {
	b := make([]*Term, len(s))
	for i := 0; i < len(s); i++ {
		b[i] = in.tb.BV(8, uint64(s[i]))
	}
	return StrV{b}
}

func (s StrV) concrete() (string, bool) {
	var sb strings.Builder
	for _, t := range s.b {
		if !t.IsConst() {
			return "", false
		}
		sb.WriteByte(byte(t.v))
	}
	return sb.String(), true
}

// cloneGraph deep-copies an object graph (used to give each path fresh globals).
type cloner struct {
	objs  map[*Object]*Object
	maps  map[*MapObj]*MapObj
	chans map[*ChanObj]*ChanObj
	in    *Interp
}

func (c *cloner) obj(o *Object) *Object {
	if o == nil {
		return nil
	}
	if n, ok := c.objs[o]; ok {
		return n
	}
	n := &Object{id: o.id, name: o.name}
	c.objs[o] = n
	n.v = c.val(o.v)
	return n
}

func (c *cloner) val(v Value) Value {
	switch x := v.(type) {
	case Pointer:
		if x.obj == nil {
			return x
		}
		return Pointer{c.obj(x.obj), x.path}
	case SliceV:
		if x.obj == nil {
			return x
		}
		x.obj = c.obj(x.obj)
		return x
	case *StructV:
		n := &StructV{f: make([]Value, len(x.f))}
		for i, f := range x.f {
			n.f[i] = c.val(f)
		}
		return n
	case *ArrayV:
		n := &ArrayV{e: make([]Value, len(x.e))}
		for i, f := range x.e {
			n.e[i] = c.val(f)
		}
		return n
	case IfaceV:
		return IfaceV{x.t, c.val(x.v)}
	case *ClosureV:
		n := &ClosureV{fn: x.fn, env: make([]Value, len(x.env))}
		for i, f := range x.env {
			n.env[i] = c.val(f)
		}
		return n
	case MapV:
		if x.m == nil {
			return x
		}
		if n, ok := c.maps[x.m]; ok {
			return MapV{n}
		}
		n := &MapObj{id: x.m.id}
		c.maps[x.m] = n
		n.entries = make([]mapEntry, len(x.m.entries))
		for i, e := range x.m.entries {
			n.entries[i] = mapEntry{c.val(e.k), c.val(e.v)}
		}
		return MapV{n}
	case ChanV:
		if x.c == nil {
			return x
		}
		if n, ok := c.chans[x.c]; ok {
			return ChanV{n}
		}
		n := &ChanObj{id: x.c.id, cap: x.c.cap, closed: x.c.closed}
		c.chans[x.c] = n
		for _, b := range x.c.buf {
			n.buf = append(n.buf, c.val(b))
		}
		return ChanV{n}
	case TupleV:
		n := make(TupleV, len(x))
		for i, f := range x {
			n[i] = c.val(f)
		}
		return n
	}
	return v
}

func valString(v Value) string {
	switch x := v.(type) {
	case nil:
		return "nil"
	case *Term:
		return x.String()
	case StrV:
		if s, ok := x.concrete(); ok {
			return fmt.Sprintf("%q", s)
		}
		return fmt.Sprintf("str[%d]", len(x.b))
	case Pointer:
		if x.obj == nil {
			return "nil-ptr"
		}
		return fmt.Sprintf("&obj%d%v", x.obj.id, x.path)
	case SliceV:
		return fmt.Sprintf("slice(obj=%v,off=%d,len=%d,cap=%d)", x.obj != nil, x.off, x.len, x.cap)
	case *StructV:
		var sb strings.Builder
		sb.WriteString("{")
		for i, f := range x.f {
			if i > 0 {
				sb.WriteString(", ")
			}
			sb.WriteString(valString(f))
		}
		sb.WriteString("}")
		return sb.String()
	case *ArrayV:
		return fmt.Sprintf("array[%d]", len(x.e))
	case IfaceV:
		if x.t == nil {
			return "nil-iface"
		}
		return fmt.Sprintf("iface(%v:%s)", x.t, valString(x.v))
	case *ErrV:
		return "error(" + x.msg + ")"
	case OpaqueV:
		return "opaque(" + x.tag + ")"
	case Poison:
		return "poison(" + x.why + ")"
	}
	return fmt.Sprintf("%T", v)
}
