package main

import (
	"bufio"
	"fmt"
	"go/types"
	"os"
	"path/filepath"
	"sort"
	"strconv"
	"strings"

	"golang.org/x/tools/go/packages"
	"golang.org/x/tools/go/ssa"
)

// repoDir is /repo for every registered command; VP_REPO_DIR points a run at a scratch worktree
// of /repo instead (only bin/seedcheck_wt.sh uses it, to try a seeded change without touching /repo).
var repoDir = func() string {
	if d := os.Getenv("VP_REPO_DIR"); d != "" {
		return d
	}
	return "/repo"
}()

var alwaysRoots = []string{"sort", "slices", "math", "math/bits", "encoding/binary", "container/heap", "bytes", "strings",
	"unicode/utf8", "errors", "cmp", "iter", "maps", "sync/atomic", "go.uber.org/atomic"}

// HarnessFile is one overlay source file with its parsed //vp: header.
type HarnessFile struct {
	Path       string
	Property   string
	Pkg        string // ./relative/dir
	PkgName    string
	Roots      []string
	Tags       string
	Backend    string
	Budget     map[string]int
	Intercepts map[string]string
	Thorough   map[string]bool // harness functions that run only in the thorough tier
	NoIfConv   bool
	BoundsDoc  []string
	AssumeDoc  []string
	LazyFork   bool
	EngineOnly map[string]bool
	Concretize map[string][]string
}

func parseHarnessFile(path string) (*HarnessFile, error) {
	f, err := os.Open(path)
	if err != nil {
		return nil, err
	}
	defer f.Close()
	hf := &HarnessFile{Path: path, Budget: map[string]int{}, Intercepts: map[string]string{}, Thorough: map[string]bool{}, EngineOnly: map[string]bool{}, Concretize: map[string][]string{}, Backend: "z3"}
	sc := bufio.NewScanner(f)
	sc.Buffer(make([]byte, 1<<20), 1<<20)
	for sc.Scan() {
		line := strings.TrimSpace(sc.Text())
		if strings.HasPrefix(line, "package ") {
			hf.PkgName = strings.TrimSpace(strings.TrimPrefix(line, "package "))
			break
		}
		if !strings.HasPrefix(line, "//vp:") {
			continue
		}
		rest := strings.TrimPrefix(line, "//vp:")
		key, val, _ := strings.Cut(rest, " ")
		val = strings.TrimSpace(val)
		switch key {
		case "property":
			hf.Property = val
		case "pkg":
			hf.Pkg = val
		case "roots":
			hf.Roots = append(hf.Roots, strings.Fields(val)...)
		case "tags":
			hf.Tags = val
		case "backend":
			hf.Backend = val
		case "bounds":
			hf.BoundsDoc = append(hf.BoundsDoc, val)
		case "assume":
			hf.AssumeDoc = append(hf.AssumeDoc, val)
		case "noifconvert":
			hf.NoIfConv = true
		case "concretize":
			for _, fp := range strings.Fields(val) {
				i := strings.LastIndexByte(fp, ':')
				if i < 0 {
					return nil, fmt.Errorf("%s: bad concretize %q (want func:param)", path, fp)
				}
				hf.Concretize[fp[:i]] = append(hf.Concretize[fp[:i]], fp[i+1:])
			}
		case "lazyfork":
			hf.LazyFork = true
		case "engine-only":
			for _, h := range strings.Fields(val) {
				hf.EngineOnly[h] = true
			}
		case "budget":
			for _, kv := range strings.Fields(val) {
				k, v, _ := strings.Cut(kv, "=")
				n, err := strconv.Atoi(v)
				if err != nil {
					return nil, fmt.Errorf("%s: bad budget %q", path, kv)
				}
				hf.Budget[k] = n
			}
		case "intercept":
			from, to, ok := strings.Cut(val, "=>")
			if !ok {
				return nil, fmt.Errorf("%s: bad intercept %q", path, val)
			}
			hf.Intercepts[strings.TrimSpace(from)] = strings.TrimSpace(to)
		case "thorough-only":
			for _, h := range strings.Fields(val) {
				hf.Thorough[h] = true
			}
		}
	}
	if hf.Pkg == "" || hf.PkgName == "" {
		return nil, fmt.Errorf("%s: missing //vp:pkg or package clause", path)
	}
	return hf, nil
}

// Group is a set of harness files that share one load (same package, tags, backend).
type Group struct {
	Files      []*HarnessFile
	Extra      []*HarnessFile
	Pkg        string
	PkgName    string
	Tags       string
	Backend    string
	Roots      []string
	Budget     map[string]int
	Intercepts map[string]string
	Thorough   map[string]bool
	NoIfConv   bool
	LazyFork   bool
	EngineOnly map[string]bool
	Concretize map[string][]string
}

func groupFiles(files []*HarnessFile) []*Group {
	m := map[string]*Group{}
	var order []string
	for _, f := range files {
		key := f.Pkg + "|" + f.Tags + "|" + f.Backend
		g := m[key]
		if g == nil {
			g = &Group{Pkg: f.Pkg, PkgName: f.PkgName, Tags: f.Tags, Backend: f.Backend, Budget: map[string]int{}, Intercepts: map[string]string{}, Thorough: map[string]bool{}, EngineOnly: map[string]bool{}, Concretize: map[string][]string{}}
			m[key] = g
			order = append(order, key)
		}
		g.Files = append(g.Files, f)
		g.Roots = append(g.Roots, f.Roots...)
		for k, v := range f.Budget {
			g.Budget[k] = v
		}
		for k, v := range f.Intercepts {
			g.Intercepts[k] = v
		}
		for k, v := range f.Thorough {
			g.Thorough[k] = v
		}
		g.NoIfConv = g.NoIfConv || f.NoIfConv
		g.LazyFork = g.LazyFork || f.LazyFork
		for k, v := range f.Concretize {
			g.Concretize[k] = append(g.Concretize[k], v...)
		}
		for k, v := range f.EngineOnly {
			g.EngineOnly[k] = v
		}
	}
	var out []*Group
	for _, k := range order {
		out = append(out, m[k])
	}
	// files of the same package/tags but another backend are compiled along (shared helpers);
	// their harness functions run in their own group
	for _, g := range out {
		for _, g2 := range out {
			if g2 != g && g2.Pkg == g.Pkg && g2.Tags == g.Tags {
				g.Extra = append(g.Extra, g2.Files...)
				g.Roots = append(g.Roots, g2.Roots...)
			}
		}
	}
	return out
}

type Loaded struct {
	prog         *ssa.Program
	hpkg         *ssa.Package
	harnesses    []*ssa.Function
	allHarnesses []*ssa.Function
	intercepts   map[string]*ssa.Function
	loadS        float64
	overlay      map[string]string // virtual path -> real path (for native runs)
	pkgDir       string
}

func (g *Group) overlayFiles(scratch string) (map[string]string, error) {
	pkgDir := filepath.Join(repoDir, strings.TrimPrefix(g.Pkg, "./"))
	ov := map[string]string{}
	for _, f := range g.Files {
		ov[filepath.Join(pkgDir, "zz_verif_"+filepath.Base(f.Path))] = f.Path
	}
	for _, f := range g.Extra {
		ov[filepath.Join(pkgDir, "zz_verif_"+filepath.Base(f.Path))] = f.Path
	}
	rt := filepath.Join(scratch, "zz_verif_rt_"+g.PkgName+".go")
	if err := os.WriteFile(rt, []byte(vpRuntimeSource(g.PkgName)), 0o644); err != nil {
		return nil, err
	}
	ov[filepath.Join(pkgDir, "zz_verif_rt.go")] = rt
	return ov, nil
}

func loadGroup(g *Group, scratch string) (*Loaded, error) {
	ov, err := g.overlayFiles(scratch)
	if err != nil {
		return nil, err
	}
	overlay := map[string][]byte{}
	for virt, real := range ov {
		b, err := os.ReadFile(real)
		if err != nil {
			return nil, err
		}
		overlay[virt] = b
	}
	env := append(os.Environ(), "GOFLAGS=", "GOTOOLCHAIN=local", "GOPROXY=off", "GOSUMDB=off", "GOWORK=")
	cfg := &packages.Config{
		Mode: packages.NeedName | packages.NeedFiles | packages.NeedCompiledGoFiles | packages.NeedImports |
			packages.NeedTypes | packages.NeedTypesSizes | packages.NeedSyntax | packages.NeedTypesInfo,
		Dir: repoDir, Env: env, Overlay: overlay,
	}
	if g.Tags != "" {
		cfg.BuildFlags = []string{"-tags=" + g.Tags}
	}
	seen := map[string]bool{}
	var patterns []string
	add := func(p string) {
		if !seen[p] {
			seen[p] = true
			patterns = append(patterns, p)
		}
	}
	add(g.Pkg)
	for _, r := range g.Roots {
		add(r)
	}
	for _, r := range alwaysRoots {
		add(r)
	}
	pkgs, err := packages.Load(cfg, patterns...)
	if err != nil {
		return nil, fmt.Errorf("packages.Load: %w", err)
	}
	var errs []string
	for _, p := range pkgs {
		for _, e := range p.Errors {
			errs = append(errs, e.Error())
		}
	}
	if len(errs) > 0 {
		if len(errs) > 8 {
			errs = errs[:8]
		}
		return nil, fmt.Errorf("load errors: %s", strings.Join(errs, "; "))
	}
	prog := ssa.NewProgram(pkgs[0].Fset, ssa.InstantiateGenerics|ssa.SanityCheckFunctions&0)
	created := map[*types.Package]bool{}
	var hp *packages.Package
	pkgDir := filepath.Join(repoDir, strings.TrimPrefix(g.Pkg, "./"))
	for _, p := range pkgs {
		if p.Types == nil {
			continue
		}
		if len(p.GoFiles) > 0 && filepath.Dir(p.GoFiles[0]) == pkgDir && !strings.HasSuffix(p.ID, ".test]") && !strings.HasSuffix(p.ID, ".test") {
			hp = p
		}
	}
	if hp == nil {
		return nil, fmt.Errorf("harness package %s not among loaded packages", g.Pkg)
	}
	for _, p := range pkgs {
		if p.Types == nil || created[p.Types] {
			continue
		}
		created[p.Types] = true
		prog.CreatePackage(p.Types, p.Syntax, p.TypesInfo, true)
	}
	// dependencies known only through export data: packages without bodies
	var visit func(tp *types.Package)
	visit = func(tp *types.Package) {
		for _, imp := range tp.Imports() {
			if !created[imp] {
				created[imp] = true
				prog.CreatePackage(imp, nil, nil, true)
				visit(imp)
			} else {
				// still walk (root packages import further export-data packages)
			}
		}
	}
	for _, p := range pkgs {
		if p.Types != nil {
			visit(p.Types)
		}
	}
	// second pass: imports of root packages themselves
	for tp := range created {
		visit(tp)
	}
	var buildErr error
	func() {
		defer func() {
			if r := recover(); r != nil {
				buildErr = fmt.Errorf("ssa build panic: %v", r)
			}
		}()
		prog.Build()
	}()
	if buildErr != nil {
		return nil, buildErr
	}
	ld := &Loaded{prog: prog, hpkg: prog.Package(hp.Types), intercepts: map[string]*ssa.Function{}, overlay: ov, pkgDir: pkgDir}
	var names []string
	for name, m := range ld.hpkg.Members {
		if fn, ok := m.(*ssa.Function); ok && strings.HasPrefix(name, "vpH_") {
			names = append(names, name)
			_ = fn
		}
	}
	sort.Strings(names)
	own := map[string]bool{}
	for _, f := range g.Files {
		own["zz_verif_"+filepath.Base(f.Path)] = true
	}
	for _, n := range names {
		fn := ld.hpkg.Func(n)
		ld.allHarnesses = append(ld.allHarnesses, fn)
		if own[filepath.Base(prog.Fset.Position(fn.Pos()).Filename)] {
			ld.harnesses = append(ld.harnesses, fn)
		}
	}
	for from, to := range g.Intercepts {
		fn := ld.hpkg.Func(to)
		if fn == nil {
			return nil, fmt.Errorf("intercept target %s not found in harness package", to)
		}
		ld.intercepts[from] = fn
	}
	return ld, nil
}
