package main

// Environment models: every stub here is part of the claim of any check that uses it
// (the names used are reported in the evidence file under stubs_used).

import (
	"fmt"
	"go/types"
	"hash/crc32"
	"math"
	"strconv"
	"strings"

	"golang.org/x/tools/go/ssa"
)

type stubFn func(in *Interp, fr *frame, fn *ssa.Function, args []Value) Value

var stubTable map[string]stubFn

// packages whose functions are no-ops returning zero/opaque values
var noopPkgPrefixes = []string{
	"log/slog", "log", "github.com/prometheus/client_golang/", "github.com/prometheus/common/promslog",
	"go.opentelemetry.io/", "runtime/debug", "runtime/pprof", "runtime/trace", "internal/race", "internal/msan", "internal/asan",
	"github.com/prometheus/client_model/",
}

func pkgPathOf(fn *ssa.Function) string {
	if fn.Pkg != nil {
		return fn.Pkg.Pkg.Path()
	}
	if recv := fn.Signature.Recv(); recv != nil {
		t := recv.Type()
		if p, ok := types.Unalias(t).(*types.Pointer); ok {
			t = p.Elem()
		}
		if n, ok := types.Unalias(t).(*types.Named); ok && n.Obj().Pkg() != nil {
			return n.Obj().Pkg().Path()
		}
	}
	if o := fn.Origin(); o != nil && o != fn {
		return pkgPathOf(o)
	}
	if fn.Object() != nil && fn.Object().Pkg() != nil {
		return fn.Object().Pkg().Path()
	}
	return ""
}

func stubName(fn *ssa.Function) string {
	if o := fn.Origin(); o != nil {
		return o.String()
	}
	return fn.String()
}

func (in *Interp) lookupStub(fn *ssa.Function, name string) (stubFn, bool) {
	if len(in.intercept) > 0 {
		if h, ok := in.intercept[name]; ok && h != fn {
			return func(in *Interp, fr *frame, _ *ssa.Function, args []Value) Value {
				return in.callSSA(fr, h, args, nil)
			}, true
		}
	}
	if fn.Origin() != nil {
		name = fn.Origin().String()
	}
	if h, ok := stubTable[name]; ok {
		return h, true
	}
	if fn.Synthetic != "" && len(fn.Blocks) > 0 && !strings.HasPrefix(fn.Synthetic, "package initializer") {
		// wrappers/thunks/bound methods: execute their bodies
		return nil, false
	}
	pp := pkgPathOf(fn)
	switch pp {
	case "sync":
		return syncStub(fn, name)
	case "sync/atomic":
		if len(fn.Blocks) == 0 || fn.Signature.Recv() == nil {
			return atomicStub(fn, name)
		}
	case "internal/abi":
		if fn.Name() == "NoEscape" || fn.Name() == "Escape" {
			return func(in *Interp, fr *frame, fn *ssa.Function, args []Value) Value { return args[0] }, true
		}
	case "runtime":
		switch fn.Name() {
		case "KeepAlive", "Gosched", "SetFinalizer", "GC":
			return func(in *Interp, fr *frame, fn *ssa.Function, args []Value) Value { return nil }, true
		}
	}
	for _, p := range noopPkgPrefixes {
		if pp == p || strings.HasPrefix(pp, p) && (strings.HasSuffix(p, "/") || strings.HasPrefix(pp, p+"/")) {
			return noopStub, true
		}
	}
	return nil, false
}

func noopStub(in *Interp, fr *frame, fn *ssa.Function, args []Value) Value {
	res := fn.Signature.Results()
	if res.Len() == 1 {
		return in.opaqueOrZero(res.At(0).Type())
	}
	return in.opaqueOrZero(res)
}

func (in *Interp) stubGlobal(g *ssa.Global) Value {
	// globals of non-root packages: opaque handles for interface/pointer types, zero otherwise; errors get distinct identities
	t := deref(g.Type())
	if isErrorType(t) {
		in.nextObj++
		return IfaceV{t: errValType, v: &ErrV{id: in.nextObj, msg: g.String()}}
	}
	switch under(t).(type) {
	case *types.Interface:
		return IfaceV{t: opaqueType, v: OpaqueV{g.String()}}
	case *types.Pointer:
		return OpaqueV{g.String()}
	}
	if g.Pkg != nil {
		pp := g.Pkg.Pkg.Path()
		switch pp {
		case "math/bits", "hash/crc32":
			return in.zero(t)
		}
	}
	return Poison{"global " + g.String() + " of a package loaded without source (add it to //vp:roots)"}
}

func syncStub(fn *ssa.Function, name string) (stubFn, bool) {
	recv := fn.Signature.Recv()
	if recv == nil {
		switch fn.Name() {
		case "OnceFunc", "OnceValue", "OnceValues":
			return nil, false
		case "NewCond":
			// a fresh Cond object; Signal/Broadcast are no-ops, Wait is unsupported (single-threaded harnesses)
			return func(in *Interp, fr *frame, fn *ssa.Function, args []Value) Value {
				obj := in.newObject(in.zero(deref(fn.Signature.Results().At(0).Type())), "sync.NewCond")
				return Pointer{obj: obj}
			}, true
		}
		return nil, false
	}
	rt := recv.Type().String()
	switch {
	case strings.HasSuffix(rt, "sync.Mutex") || strings.HasSuffix(rt, "sync.RWMutex"):
		return func(in *Interp, fr *frame, fn *ssa.Function, args []Value) Value {
			if strings.HasPrefix(fn.Name(), "Try") {
				return in.tb.tt
			}
			if fn.Name() == "RLocker" {
				unsupp("RWMutex.RLocker")
			}
			return nil
		}, true
	case strings.HasSuffix(rt, "sync.WaitGroup"):
		return func(in *Interp, fr *frame, fn *ssa.Function, args []Value) Value {
			if fn.Name() == "Go" {
				unsupp("WaitGroup.Go")
			}
			return nil
		}, true
	case strings.HasSuffix(rt, "sync.Once"):
		return func(in *Interp, fr *frame, fn *ssa.Function, args []Value) Value {
			if fn.Name() != "Do" {
				unsupp("sync.Once.%s", fn.Name())
			}
			p := in.ptr(args[0])
			key := fmt.Sprintf("once:%p:%v", p.obj, p.path)
			if in.onceDone[key] {
				return nil
			}
			in.onceDone[key] = true
			in.call(fr, args[1], nil, nil)
			return nil
		}, true
	case strings.HasSuffix(rt, "sync.Pool"):
		return func(in *Interp, fr *frame, fn *ssa.Function, args []Value) Value {
			switch fn.Name() {
			case "Put":
				return nil
			case "Get":
				p := in.ptr(args[0])
				st := under(deref(recv.Type())).(*types.Struct)
				for i := 0; i < st.NumFields(); i++ {
					if st.Field(i).Name() == "New" {
						f := in.load(Pointer{p.obj, extendPath(p.path, i)})
						if fv, ok := f.(*ssa.Function); ok && fv == nil {
							return IfaceV{}
						}
						return in.call(fr, f, nil, nil)
					}
				}
				return IfaceV{}
			}
			unsupp("sync.Pool.%s", fn.Name())
			return nil
		}, true
	case strings.HasSuffix(rt, "sync.Cond"):
		return func(in *Interp, fr *frame, fn *ssa.Function, args []Value) Value {
			if fn.Name() == "Wait" {
				unsupp("sync.Cond.Wait")
			}
			return nil
		}, true
	}
	return nil, false
}

func atomicStub(fn *ssa.Function, name string) (stubFn, bool) {
	n := fn.Name()
	switch {
	case strings.HasPrefix(n, "Load"):
		return func(in *Interp, fr *frame, fn *ssa.Function, args []Value) Value { return in.load(in.ptr(args[0])) }, true
	case strings.HasPrefix(n, "Store"):
		return func(in *Interp, fr *frame, fn *ssa.Function, args []Value) Value {
			in.store(in.ptr(args[0]), args[1])
			return nil
		}, true
	case strings.HasPrefix(n, "Add"):
		return func(in *Interp, fr *frame, fn *ssa.Function, args []Value) Value {
			p := in.ptr(args[0])
			v := in.tb.Add(in.load(p).(*Term), args[1].(*Term))
			in.store(p, v)
			return v
		}, true
	case strings.HasPrefix(n, "And"), strings.HasPrefix(n, "Or"):
		return func(in *Interp, fr *frame, fn *ssa.Function, args []Value) Value {
			p := in.ptr(args[0])
			old := in.load(p).(*Term)
			var v *Term
			if strings.HasPrefix(fn.Name(), "And") {
				v = in.tb.BAnd(old, args[1].(*Term))
			} else {
				v = in.tb.BOr(old, args[1].(*Term))
			}
			in.store(p, v)
			return old
		}, true
	case strings.HasPrefix(n, "Swap"):
		return func(in *Interp, fr *frame, fn *ssa.Function, args []Value) Value {
			p := in.ptr(args[0])
			old := in.load(p)
			in.store(p, args[1])
			return old
		}, true
	case strings.HasPrefix(n, "CompareAndSwap"):
		return func(in *Interp, fr *frame, fn *ssa.Function, args []Value) Value {
			p := in.ptr(args[0])
			old := in.load(p)
			var eq *Term
			if _, isT := old.(*Term); isT {
				eq = in.tb.Eq(old.(*Term), args[1].(*Term))
			} else {
				eq = in.equal(types.Typ[types.UnsafePointer], old, args[1])
			}
			if in.fork(eq) {
				in.store(p, args[2])
				return in.tb.tt
			}
			return in.tb.ff
		}, true
	}
	return nil, false
}

func term(v Value) *Term { return v.(*Term) }

func init() {
	id := func(in *Interp, fr *frame, fn *ssa.Function, args []Value) Value { return args[0] }
	stubTable = map[string]stubFn{
		"math.Float64bits":     id,
		"math.Float64frombits": id,
		"math.Float32bits":     id,
		"math.Float32frombits": id,
		"math.Floor":           func(in *Interp, fr *frame, fn *ssa.Function, a []Value) Value { return in.tb.FRound(term(a[0]), 2) },
		"math.Ceil":            func(in *Interp, fr *frame, fn *ssa.Function, a []Value) Value { return in.tb.FRound(term(a[0]), 3) },
		"math.Trunc":           func(in *Interp, fr *frame, fn *ssa.Function, a []Value) Value { return in.tb.FRound(term(a[0]), 1) },
		"math.RoundToEven": func(in *Interp, fr *frame, fn *ssa.Function, a []Value) Value {
			return in.tb.FRound(term(a[0]), 0)
		},
		"math.Sqrt": func(in *Interp, fr *frame, fn *ssa.Function, a []Value) Value { return in.tb.FSqrt(term(a[0])) },
		"math.Abs":  func(in *Interp, fr *frame, fn *ssa.Function, a []Value) Value { return in.tb.FAbs(term(a[0])) },
		"math.IsNaN": func(in *Interp, fr *frame, fn *ssa.Function, a []Value) Value {
			return in.tb.FIsNaN(term(a[0]))
		},
		"math.IsInf": func(in *Interp, fr *frame, fn *ssa.Function, a []Value) Value {
			tb := in.tb
			f, s := term(a[0]), term(a[1])
			inf := tb.FIsInf(f)
			neg := tb.fSign(f)
			pos := tb.SLt(tb.BV(64, 0), s)
			zero := tb.Eq(s, tb.BV(64, 0))
			return tb.And(inf, tb.Ite(zero, tb.tt, tb.Ite(pos, tb.Not(neg), neg)))
		},
		"math.Signbit": func(in *Interp, fr *frame, fn *ssa.Function, a []Value) Value { return in.tb.fSign(term(a[0])) },
		"math.Copysign": func(in *Interp, fr *frame, fn *ssa.Function, a []Value) Value {
			tb := in.tb
			const sign = uint64(1) << 63
			return tb.BOr(tb.BAnd(term(a[0]), tb.BV(64, ^sign)), tb.BAnd(term(a[1]), tb.BV(64, sign)))
		},
		"math.Inf": func(in *Interp, fr *frame, fn *ssa.Function, a []Value) Value {
			tb := in.tb
			return tb.Ite(tb.SLe(tb.BV(64, 0), term(a[0])), tb.BV(64, 0x7FF0000000000000), tb.BV(64, 0xFFF0000000000000))
		},
		"math.NaN": func(in *Interp, fr *frame, fn *ssa.Function, a []Value) Value {
			return in.tb.BV(64, 0x7FF8000000000001)
		},

		"math/bits.LeadingZeros64": func(in *Interp, fr *frame, fn *ssa.Function, a []Value) Value { return in.tb.Clz(term(a[0])) },
		"math/bits.LeadingZeros32": func(in *Interp, fr *frame, fn *ssa.Function, a []Value) Value {
			return in.tb.ZExt(in.tb.Clz(term(a[0])), 64)
		},
		"math/bits.LeadingZeros16": func(in *Interp, fr *frame, fn *ssa.Function, a []Value) Value {
			return in.tb.ZExt(in.tb.Clz(term(a[0])), 64)
		},
		"math/bits.LeadingZeros8": func(in *Interp, fr *frame, fn *ssa.Function, a []Value) Value {
			return in.tb.ZExt(in.tb.Clz(term(a[0])), 64)
		},
		"math/bits.LeadingZeros": func(in *Interp, fr *frame, fn *ssa.Function, a []Value) Value { return in.tb.Clz(term(a[0])) },
		"math/bits.TrailingZeros64": func(in *Interp, fr *frame, fn *ssa.Function, a []Value) Value {
			return in.tb.Ctz(term(a[0]))
		},
		"math/bits.TrailingZeros32": func(in *Interp, fr *frame, fn *ssa.Function, a []Value) Value {
			return in.tb.ZExt(in.tb.Ctz(term(a[0])), 64)
		},
		"math/bits.TrailingZeros16": func(in *Interp, fr *frame, fn *ssa.Function, a []Value) Value {
			return in.tb.ZExt(in.tb.Ctz(term(a[0])), 64)
		},
		"math/bits.TrailingZeros8": func(in *Interp, fr *frame, fn *ssa.Function, a []Value) Value {
			return in.tb.ZExt(in.tb.Ctz(term(a[0])), 64)
		},
		"math/bits.TrailingZeros": func(in *Interp, fr *frame, fn *ssa.Function, a []Value) Value { return in.tb.Ctz(term(a[0])) },
		"math/bits.Len64": func(in *Interp, fr *frame, fn *ssa.Function, a []Value) Value {
			return in.tb.Sub(in.tb.BV(64, 64), in.tb.Clz(term(a[0])))
		},
		"math/bits.Len": func(in *Interp, fr *frame, fn *ssa.Function, a []Value) Value {
			return in.tb.Sub(in.tb.BV(64, 64), in.tb.Clz(term(a[0])))
		},
		"math/bits.Len32": func(in *Interp, fr *frame, fn *ssa.Function, a []Value) Value {
			return in.tb.Sub(in.tb.BV(64, 32), in.tb.ZExt(in.tb.Clz(term(a[0])), 64))
		},
		"math/bits.Len16": func(in *Interp, fr *frame, fn *ssa.Function, a []Value) Value {
			return in.tb.Sub(in.tb.BV(64, 16), in.tb.ZExt(in.tb.Clz(term(a[0])), 64))
		},
		"math/bits.Len8": func(in *Interp, fr *frame, fn *ssa.Function, a []Value) Value {
			return in.tb.Sub(in.tb.BV(64, 8), in.tb.ZExt(in.tb.Clz(term(a[0])), 64))
		},
		"math/bits.OnesCount64": func(in *Interp, fr *frame, fn *ssa.Function, a []Value) Value {
			return in.tb.Popcount(term(a[0]))
		},
		"math/bits.OnesCount": func(in *Interp, fr *frame, fn *ssa.Function, a []Value) Value { return in.tb.Popcount(term(a[0])) },
		"math/bits.OnesCount32": func(in *Interp, fr *frame, fn *ssa.Function, a []Value) Value {
			return in.tb.ZExt(in.tb.Popcount(term(a[0])), 64)
		},
		"math/bits.OnesCount8": func(in *Interp, fr *frame, fn *ssa.Function, a []Value) Value {
			return in.tb.ZExt(in.tb.Popcount(term(a[0])), 64)
		},
		"math/bits.Mul64": func(in *Interp, fr *frame, fn *ssa.Function, a []Value) Value {
			tb := in.tb
			p := tb.Mul(tb.ZExt(term(a[0]), 128), tb.ZExt(term(a[1]), 128))
			return TupleV{tb.Extract(p, 127, 64), tb.Extract(p, 63, 0)}
		},

		"errors.Is":     stubErrorsIs,
		"errors.As":     stubErrorsAs,
		"errors.Unwrap": stubErrorsUnwrap,
		"errors.Join":   stubErrorsJoin,
		"errors.New": func(in *Interp, fr *frame, fn *ssa.Function, a []Value) Value {
			s, _ := a[0].(StrV).concrete()
			in.nextObj++
			return IfaceV{t: errValType, v: &ErrV{id: in.nextObj, msg: s}}
		},
		"fmt.Errorf": func(in *Interp, fr *frame, fn *ssa.Function, a []Value) Value {
			s, _ := a[0].(StrV).concrete()
			in.nextObj++
			e := &ErrV{id: in.nextObj, msg: s}
			if strings.Contains(s, "%w") {
				for _, x := range in.sliceElems(a[1].(SliceV)) {
					if iv, ok := x.(IfaceV); ok && iv.t != nil && in.isErrorValue(iv) {
						e.wrapped = append(e.wrapped, iv)
					}
				}
			}
			return IfaceV{t: errValType, v: e}
		},
		"fmt.Sprintf": func(in *Interp, fr *frame, fn *ssa.Function, a []Value) Value {
			s, _ := a[0].(StrV).concrete()
			return in.strConst("<fmt:" + s + ">")
		},
		"fmt.Sprint":   func(in *Interp, fr *frame, fn *ssa.Function, a []Value) Value { return in.strConst("<fmt.Sprint>") },
		"fmt.Sprintln": func(in *Interp, fr *frame, fn *ssa.Function, a []Value) Value { return in.strConst("<fmt.Sprintln>") },
		"fmt.Println":  noopStub,
		"fmt.Printf":   noopStub,
		"fmt.Fprintf":  noopStub,
		"fmt.Fprintln": noopStub,
		"fmt.Fprint":   noopStub,

		"strconv.Itoa": func(in *Interp, fr *frame, fn *ssa.Function, a []Value) Value {
			t := term(a[0])
			if !t.IsConst() {
				unsupp("strconv.Itoa of symbolic value")
			}
			return in.strConst(strconv.FormatInt(int64(t.v), 10))
		},
		"strconv.FormatInt": func(in *Interp, fr *frame, fn *ssa.Function, a []Value) Value {
			t, b := term(a[0]), term(a[1])
			if !t.IsConst() || !b.IsConst() {
				unsupp("strconv.FormatInt of symbolic value")
			}
			return in.strConst(strconv.FormatInt(int64(t.v), int(b.v)))
		},
		"strconv.FormatUint": func(in *Interp, fr *frame, fn *ssa.Function, a []Value) Value {
			t, b := term(a[0]), term(a[1])
			if !t.IsConst() || !b.IsConst() {
				unsupp("strconv.FormatUint of symbolic value")
			}
			return in.strConst(strconv.FormatUint(t.v, int(b.v)))
		},

		"strconv.ParseFloat": func(in *Interp, fr *frame, fn *ssa.Function, a []Value) Value {
			s, ok := a[0].(StrV).concrete()
			bs := term(a[1])
			if !ok || !bs.IsConst() {
				unsupp("strconv.ParseFloat of symbolic string")
			}
			f, err := strconv.ParseFloat(s, int(bs.v))
			if err != nil {
				in.nextObj++
				return TupleV{in.tb.BV(64, math.Float64bits(f)), IfaceV{t: errValType, v: &ErrV{id: in.nextObj, msg: err.Error()}}}
			}
			return TupleV{in.tb.BV(64, math.Float64bits(f)), IfaceV{}}
		},

		"strconv.AppendQuote": func(in *Interp, fr *frame, fn *ssa.Function, a []Value) Value {
			s, ok := a[1].(StrV).concrete()
			if !ok {
				unsupp("strconv.AppendQuote of symbolic string")
			}
			var vs []Value
			for _, t := range in.byteTerms(a[0]) {
				vs = append(vs, t)
			}
			for _, c := range []byte(strconv.Quote(s)) {
				vs = append(vs, in.tb.BV(8, uint64(c)))
			}
			return in.sliceFromValues(vs)
		},
		"strconv.Quote": func(in *Interp, fr *frame, fn *ssa.Function, a []Value) Value {
			s, ok := a[0].(StrV).concrete()
			if !ok {
				unsupp("strconv.Quote of symbolic string")
			}
			return in.strConst(strconv.Quote(s))
		},

		"time.Now": func(in *Interp, fr *frame, fn *ssa.Function, a []Value) Value {
			// the clock is one fixed instant (2026-01-01T00:00:00Z, no monotonic reading): harnesses that depend on
			// elapsed time state what they set up relative to it
			t := in.zero(fn.Signature.Results().At(0).Type())
			if sv, ok := t.(*StructV); ok && len(sv.f) >= 2 {
				sv.f[1] = in.tb.BV(64, 63902908800)
			}
			return t
		},

		"sort.Slice":       stubSortSlice,
		"sort.SliceStable": stubSortSlice,

		"hash/crc32.MakeTable": func(in *Interp, fr *frame, fn *ssa.Function, a []Value) Value {
			t := term(a[0])
			return OpaqueV{fmt.Sprintf("crc32table:%x", t.v)}
		},
		"hash/crc32.Checksum": func(in *Interp, fr *frame, fn *ssa.Function, a []Value) Value {
			return in.crcOf(nil, in.byteTerms(a[0]), a[1])
		},
		"hash/crc32.Update": func(in *Interp, fr *frame, fn *ssa.Function, a []Value) Value {
			return in.crcOf(term(a[0]), in.byteTerms(a[2]), a[1])
		},
		"hash/crc32.New": func(in *Interp, fr *frame, fn *ssa.Function, a []Value) Value {
			return IfaceV{t: hashObjType, v: &HashObj{kind: "crc32", tab: a[0]}}
		},
		"github.com/cespare/xxhash/v2.Sum64": func(in *Interp, fr *frame, fn *ssa.Function, a []Value) Value {
			return in.xxhOf(in.byteTerms(a[0]))
		},
		"github.com/cespare/xxhash/v2.Sum64String": func(in *Interp, fr *frame, fn *ssa.Function, a []Value) Value {
			return in.xxhOf(a[0].(StrV).b)
		},

		"internal/bytealg.IndexByte": func(in *Interp, fr *frame, fn *ssa.Function, a []Value) Value {
			return in.indexByte(in.byteTerms(a[0]), term(a[1]))
		},
		"internal/bytealg.IndexByteString": func(in *Interp, fr *frame, fn *ssa.Function, a []Value) Value {
			return in.indexByte(a[0].(StrV).b, term(a[1]))
		},
		"internal/bytealg.Equal": func(in *Interp, fr *frame, fn *ssa.Function, a []Value) Value {
			return in.strEqual(StrV{in.byteTerms(a[0])}, StrV{in.byteTerms(a[1])})
		},
		"bytes.Equal": func(in *Interp, fr *frame, fn *ssa.Function, a []Value) Value {
			return in.strEqual(StrV{in.byteTerms(a[0])}, StrV{in.byteTerms(a[1])})
		},
		"internal/bytealg.Compare": func(in *Interp, fr *frame, fn *ssa.Function, a []Value) Value {
			return in.compareBytes(StrV{in.byteTerms(a[0])}, StrV{in.byteTerms(a[1])})
		},
		"bytes.Compare": func(in *Interp, fr *frame, fn *ssa.Function, a []Value) Value {
			return in.compareBytes(StrV{in.byteTerms(a[0])}, StrV{in.byteTerms(a[1])})
		},
		"strings.Compare": func(in *Interp, fr *frame, fn *ssa.Function, a []Value) Value {
			return in.compareBytes(a[0].(StrV), a[1].(StrV))
		},
		"internal/bytealg.CompareString": func(in *Interp, fr *frame, fn *ssa.Function, a []Value) Value {
			return in.compareBytes(a[0].(StrV), a[1].(StrV))
		},
		"internal/bytealg.CountString": func(in *Interp, fr *frame, fn *ssa.Function, a []Value) Value {
			return in.countByte(a[0].(StrV).b, term(a[1]))
		},
		"internal/bytealg.Count": func(in *Interp, fr *frame, fn *ssa.Function, a []Value) Value {
			return in.countByte(in.byteTerms(a[0]), term(a[1]))
		},
		// sync/atomic.Value stores an interface through unsafe word surgery: modelled as a side table per object
		"(*sync/atomic.Value).Store": func(in *Interp, fr *frame, fn *ssa.Function, a []Value) Value {
			in.atomicVals[specKey(in.ptr(a[0]))] = a[1]
			return nil
		},
		"(*sync/atomic.Value).Load": func(in *Interp, fr *frame, fn *ssa.Function, a []Value) Value {
			if v, ok := in.atomicVals[specKey(in.ptr(a[0]))]; ok {
				return v
			}
			return IfaceV{}
		},
		"(*sync/atomic.Value).Swap": func(in *Interp, fr *frame, fn *ssa.Function, a []Value) Value {
			k := specKey(in.ptr(a[0]))
			old, ok := in.atomicVals[k]
			in.atomicVals[k] = a[1]
			if !ok {
				return IfaceV{}
			}
			return old
		},
		"context.WithValue": func(in *Interp, fr *frame, fn *ssa.Function, a []Value) Value { return a[0] },
		"(*os.File).Name": func(in *Interp, fr *frame, fn *ssa.Function, a []Value) Value {
			return in.strConst("<file>") // only used in error messages
		},
		"context.Background": func(in *Interp, fr *frame, fn *ssa.Function, a []Value) Value {
			return IfaceV{t: opaqueType, v: OpaqueV{"context"}}
		},
		"context.TODO": func(in *Interp, fr *frame, fn *ssa.Function, a []Value) Value {
			return IfaceV{t: opaqueType, v: OpaqueV{"context"}}
		},
	}
}

var hashObjType = types.NewNamed(types.NewTypeName(0, nil, "vpHash", nil), types.NewStruct(nil, nil), nil)

type HashObj struct {
	kind string
	tab  Value
	data []*Term
}

func (in *Interp) byteTerms(v Value) []*Term {
	switch s := v.(type) {
	case SliceV:
		el := in.sliceElems(s)
		out := make([]*Term, len(el))
		for i, e := range el {
			out[i] = e.(*Term)
		}
		return out
	case StrV:
		return s.b
	}
	panic(fmt.Sprintf("internal: byteTerms of %T", v))
}

func (in *Interp) crcOf(init *Term, data []*Term, tab Value) *Term {
	allConst := init == nil || init.IsConst()
	for _, d := range data {
		if !d.IsConst() {
			allConst = false
		}
	}
	tag := ""
	if o, ok := tab.(OpaqueV); ok {
		tag = o.tag
	}
	if allConst {
		var poly uint32
		switch {
		case strings.HasSuffix(tag, fmt.Sprintf(":%x", uint32(crc32.Castagnoli))):
			poly = crc32.Castagnoli
		case strings.HasSuffix(tag, fmt.Sprintf(":%x", uint32(crc32.IEEE))):
			poly = crc32.IEEE
		}
		if poly != 0 {
			buf := make([]byte, len(data))
			for i, d := range data {
				buf[i] = byte(d.v)
			}
			var c uint32
			if init != nil {
				c = uint32(init.v)
			}
			return in.tb.BV(32, uint64(crc32.Update(c, crc32.MakeTable(poly), buf)))
		}
	}
	args := data
	if init != nil {
		if len(data) == 0 {
			return init
		}
		args = append([]*Term{init}, data...)
		return in.tb.UF("crc32upd", 32, args...)
	}
	return in.tb.UF("crc32", 32, args...)
}

func (in *Interp) hashMethod(fr *frame, h *HashObj, name string, args []Value) Value {
	tb := in.tb
	switch name {
	case "Write":
		b := in.byteTerms(args[0])
		h.data = append(h.data, b...)
		return TupleV{tb.BV(64, uint64(len(b))), IfaceV{}}
	case "Reset":
		h.data = nil
		return nil
	case "Sum32":
		return in.crcOf(nil, h.data, h.tab)
	case "Size":
		return tb.BV(64, 4)
	case "Sum":
		s := in.crcOf(nil, h.data, h.tab)
		dst := args[0].(SliceV)
		bs := []Value{tb.Extract(s, 31, 24), tb.Extract(s, 23, 16), tb.Extract(s, 15, 8), tb.Extract(s, 7, 0)}
		old := in.sliceElems(dst)
		vals := append(append([]Value(nil), old...), bs...)
		return in.sliceFromValues(vals)
	}
	unsupp("hash method %s", name)
	return nil
}

func (in *Interp) indexByte(b []*Term, c *Term) Value {
	tb := in.tb
	res := tb.BV(64, ^uint64(0))
	for i := len(b) - 1; i >= 0; i-- {
		res = tb.Ite(tb.Eq(b[i], c), tb.BV(64, uint64(i)), res)
	}
	return res
}

func (in *Interp) countByte(b []*Term, c *Term) Value {
	tb := in.tb
	res := tb.BV(64, 0)
	for i := range b {
		res = tb.Add(res, tb.B2BV(tb.Eq(b[i], c), 64))
	}
	return res
}

func (in *Interp) compareBytes(a, b StrV) Value {
	tb := in.tb
	lt := in.strLess(a, b, false)
	eq := in.strEqual(a, b)
	return tb.Ite(eq, tb.BV(64, 0), tb.Ite(lt, tb.BV(64, ^uint64(0)), tb.BV(64, 1)))
}

func (in *Interp) isErrorValue(iv IfaceV) bool {
	if iv.t == errValType || iv.t == runtimeErrType {
		return true
	}
	if iv.t == opaqueType || iv.t == hashObjType {
		return false
	}
	errI := types.Universe.Lookup("error").Type().Underlying().(*types.Interface)
	return types.Implements(iv.t, errI)
}

// callMethodByName calls a method on an interface value if its dynamic type has it.
func (in *Interp) callMethodByName(fr *frame, iv IfaceV, name string, args ...Value) (Value, bool) {
	if iv.t == nil || iv.t == errValType || iv.t == runtimeErrType || iv.t == opaqueType || iv.t == hashObjType {
		return nil, false
	}
	ms := in.prog.MethodSets.MethodSet(iv.t)
	for i := 0; i < ms.Len(); i++ {
		sel := ms.At(i)
		if sel.Obj().Name() == name {
			fn := in.prog.MethodValue(sel)
			if fn == nil {
				return nil, false
			}
			return in.callSSA(fr, fn, append([]Value{iv.v}, args...), nil), true
		}
	}
	return nil, false
}

func (in *Interp) unwrapAll(fr *frame, iv IfaceV) []IfaceV {
	if e, ok := iv.v.(*ErrV); ok && (iv.t == errValType || iv.t == runtimeErrType) {
		var out []IfaceV
		for _, w := range e.wrapped {
			out = append(out, w.(IfaceV))
		}
		return out
	}
	if r, ok := in.callMethodByName(fr, iv, "Unwrap"); ok {
		switch x := r.(type) {
		case IfaceV:
			if x.t != nil {
				return []IfaceV{x}
			}
		case SliceV:
			var out []IfaceV
			for _, e := range in.sliceElems(x) {
				if ie := e.(IfaceV); ie.t != nil {
					out = append(out, ie)
				}
			}
			return out
		}
	}
	return nil
}

func (in *Interp) errorsIs(fr *frame, err, target IfaceV, depth int) bool {
	if err.t == nil || target.t == nil {
		return err.t == nil && target.t == nil
	}
	if depth > 20 {
		unsupp("errors.Is chain too deep")
	}
	comparable := target.t == errValType || target.t == runtimeErrType || target.t == opaqueType || types.Comparable(target.t)
	if comparable {
		c := in.equal(nil, err, target)
		if in.fork(c) {
			return true
		}
	}
	if r, ok := in.callMethodByName(fr, err, "Is", target); ok {
		if in.fork(r.(*Term)) {
			return true
		}
	}
	for _, w := range in.unwrapAll(fr, err) {
		if in.errorsIs(fr, w, target, depth+1) {
			return true
		}
	}
	return false
}

func stubErrorsIs(in *Interp, fr *frame, fn *ssa.Function, a []Value) Value {
	return in.tb.Bool(in.errorsIs(fr, a[0].(IfaceV), a[1].(IfaceV), 0))
}

func stubErrorsUnwrap(in *Interp, fr *frame, fn *ssa.Function, a []Value) Value {
	iv := a[0].(IfaceV)
	if iv.t == nil {
		return IfaceV{}
	}
	if e, ok := iv.v.(*ErrV); ok {
		if len(e.wrapped) == 1 {
			return e.wrapped[0]
		}
		return IfaceV{}
	}
	if r, ok := in.callMethodByName(fr, iv, "Unwrap"); ok {
		if x, ok := r.(IfaceV); ok {
			return x
		}
	}
	return IfaceV{}
}

func stubErrorsJoin(in *Interp, fr *frame, fn *ssa.Function, a []Value) Value {
	var ws []Value
	for _, e := range in.sliceElems(a[0].(SliceV)) {
		if iv := e.(IfaceV); iv.t != nil {
			ws = append(ws, iv)
		}
	}
	if len(ws) == 0 {
		return IfaceV{}
	}
	in.nextObj++
	return IfaceV{t: errValType, v: &ErrV{id: in.nextObj, msg: "<joined errors>", wrapped: ws}}
}

func stubErrorsAs(in *Interp, fr *frame, fn *ssa.Function, a []Value) Value {
	err := a[0].(IfaceV)
	tgt := a[1].(IfaceV)
	if tgt.t == nil {
		panic(&goPanic{msg: "errors: target cannot be nil"})
	}
	pt, ok := under(tgt.t).(*types.Pointer)
	if !ok {
		panic(&goPanic{msg: "errors: target must be a non-nil pointer"})
	}
	want := pt.Elem()
	var walk func(e IfaceV, depth int) bool
	walk = func(e IfaceV, depth int) bool {
		if e.t == nil || depth > 20 {
			return false
		}
		if e.t != errValType && e.t != runtimeErrType && e.t != opaqueType {
			if it, isI := under(want).(*types.Interface); isI {
				if types.Implements(e.t, it) {
					in.store(in.ptr(tgt.v), e)
					return true
				}
			} else if types.Identical(e.t, want) {
				in.store(in.ptr(tgt.v), e.v)
				return true
			}
		} else if it, isI := under(want).(*types.Interface); isI && (it.NumMethods() == 0 || isErrorType(want)) {
			in.store(in.ptr(tgt.v), e)
			return true
		}
		for _, w := range in.unwrapAll(fr, e) {
			if walk(w, depth+1) {
				return true
			}
		}
		return false
	}
	return in.tb.Bool(walk(err, 0))
}

func stubSortSlice(in *Interp, fr *frame, fn *ssa.Function, a []Value) Value {
	iv := a[0].(IfaceV)
	s, ok := iv.v.(SliceV)
	if !ok {
		unsupp("sort.Slice on %T", iv.v)
	}
	less := a[1]
	arr := in.sliceArray(s)
	n := s.len
	// insertion sort (stable) driven by the real less closure
	for i := 1; i < n; i++ {
		for j := i; j > 0; j-- {
			r := in.call(fr, less, []Value{in.tb.BV(64, uint64(j)), in.tb.BV(64, uint64(j-1))}, nil).(*Term)
			if !in.fork(r) {
				break
			}
			arr.e[s.off+j], arr.e[s.off+j-1] = arr.e[s.off+j-1], arr.e[s.off+j]
		}
	}
	return nil
}

// xxhOf is the xxhash stub: the real hash when every byte is concrete, otherwise an uninterpreted
// function of the exact byte sequence.
func (in *Interp) xxhOf(bs []*Term) *Term {
	raw := make([]byte, len(bs))
	for i, b := range bs {
		if !b.IsConst() {
			return in.tb.UF("xxhash64", 64, bs...)
		}
		raw[i] = byte(b.v)
	}
	return in.tb.BV(64, xxh64(raw))
}
