//vp:property C42
//vp:pkg ./storage/remote
//vp:roots ./prompb ./tsdb/chunkenc ./model/histogram bufio io
//vp:bounds streamed remote-read framing (ChunkedWriter.Write then ChunkedReader.Next over the produced bytes): 1..3 frames of 1..3 arbitrary bytes each, reader size limit 2 or 1024 (case split); every frame within the limit comes back with exactly its bytes, in order, then io.EOF; a frame above the limit is refused
//vp:assume CRC32 is an uninterpreted function of the exact bytes (identical terms on both sides); the HTTP flusher is a no-op
package remote

import (
	"bytes"
	"io"
)

type vpXFlusher struct{}

func (vpXFlusher) Flush() {}

func vpH_C42_chunked_frames_roundtrip() {
	nf := vpShape("frames", 1, 3)
	limit := []uint64{2, 1024}[vpShape("limit", 0, 1)]
	var buf bytes.Buffer
	w := NewChunkedWriter(&buf, vpXFlusher{})
	var frames [][]byte
	for i := 0; i < nf; i++ {
		f := make([]byte, vpShape("len", 1, 3))
		for j := range f {
			f[j] = vpByte()
		}
		n, err := w.Write(f)
		vpAssert(err == nil && n == len(f), "frame written")
		frames = append(frames, f)
	}
	w.Close()
	r := NewChunkedReader(bytes.NewReader(buf.Bytes()), limit, nil)
	for i, f := range frames {
		got, err := r.Next()
		if uint64(len(f)) > limit {
			vpAssert(err != nil, "a frame above the size limit is refused")
			vpReach("refused")
			return
		}
		vpAssert(err == nil, "frame read back")
		if err != nil {
			return
		}
		vpObserve("len", len(got))
		vpAssert(len(got) == len(f), "frame length")
		if len(got) == len(f) {
			for j := range f {
				vpAssert(got[j] == f[j], "frame bytes")
			}
		}
		_ = i
	}
	_, err := r.Next()
	vpAssert(err == io.EOF, "end of stream after the last frame")
	vpReach("end")
}
