//vp:property C42
//vp:pkg ./storage/remote
//vp:roots ./prompb ./tsdb/chunkenc ./model/histogram
//vp:bounds client-side iterator over a sampled remote-read response (concreteSeriesIterator): <=2 float samples and <=2 (zero-bucket, valid) histograms with symbolic strictly increasing, pairwise distinct timestamps in [-2^62, 2^62]; a script of 3 steps (thorough 4), each Next or Seek(x) with arbitrary x; the script ends at the first ValNone
//vp:assume float and histogram timestamps of one series are pairwise distinct and each list is strictly increasing (what a server puts into a response)
package remote

import (
	"math"

	"github.com/prometheus/prometheus/prompb"
	"github.com/prometheus/prometheus/tsdb/chunkenc"
)

// The series a client decodes from a sampled response iterates exactly the samples put into the
// response, in time order, under any Next/Seek interleaving.
func vpH_C42_concreteIterator_script() {
	nf := vpShape("floats", 0, 2)
	nh := vpShape("hists", 0, 2)
	var fs []prompb.Sample
	var hs []prompb.Histogram
	var ts []int64
	var isH []bool
	bound := func(t int64) { vpAssume(vpAnd(t >= -(1<<62), t <= 1<<62)) }
	for i := 0; i < nf; i++ {
		t := vpInt64()
		bound(t)
		if i > 0 {
			vpAssume(fs[i-1].Timestamp < t)
		}
		fs = append(fs, prompb.Sample{Timestamp: t, Value: 1})
		ts, isH = append(ts, t), append(isH, false)
	}
	for i := 0; i < nh; i++ {
		t := vpInt64()
		bound(t)
		if i > 0 {
			vpAssume(hs[i-1].Timestamp < t)
		}
		for _, f := range fs {
			vpAssume(f.Timestamp != t)
		}
		hs = append(hs, prompb.Histogram{Timestamp: t, Count: &prompb.Histogram_CountInt{CountInt: 0}, ZeroCount: &prompb.Histogram_ZeroCountInt{ZeroCountInt: 0}})
		ts, isH = append(ts, t), append(isH, true)
	}
	it := newConcreteSeriesIterator(&concreteSeries{floats: fs, histograms: hs})
	steps := 3
	if vpThorough() {
		steps = 4
	}
	cur := int64(math.MinInt64) // timestamp of the current sample
	started := false
	for s := 0; s < steps; s++ {
		var r chunkenc.ValueType
		// least timestamp >= lo (strictly greater than the current one unless the iterator has not started)
		var lo int64
		stay := false
		if vpShape("op", 0, 1) == 0 {
			r = it.Next()
			lo = cur
			if started {
				lo = cur + 1
			}
		} else {
			x := vpInt64()
			r = it.Seek(x)
			if started && cur >= x {
				stay = true
			}
			lo = x
			if started && !stay && x <= cur {
				lo = cur + 1
			}
		}
		var want int64 = math.MaxInt64
		wantH := false
		if stay {
			want = cur
			for i := range ts {
				wantH = vpIte(ts[i] == cur, isH[i], wantH)
			}
		} else {
			for i := range ts {
				better := vpAnd(ts[i] >= lo, ts[i] < want)
				want = vpIte(better, ts[i], want)
				wantH = vpIte(better, isH[i], wantH)
			}
		}
		vpObserve("r", uint8(r))
		if want == math.MaxInt64 {
			vpAssert(r == chunkenc.ValNone, "ValNone when no sample qualifies")
			vpReach("exhausted")
			return
		}
		vpAssert(r != chunkenc.ValNone, "a qualifying sample is found")
		if r == chunkenc.ValNone {
			return
		}
		vpObserve("t", it.AtT())
		vpAssert(it.AtT() == want, "the next sample in time order is returned, none skipped")
		vpAssert((r == chunkenc.ValHistogram) == wantH, "sample type")
		cur, started = want, true
	}
	vpReach("end")
}
