//vp:property C42
//vp:pkg ./storage/remote
//vp:roots ./prompb ./tsdb/chunkenc ./model/histogram
//vp:bounds client-side iterator over a streamed-chunks remote-read response (chunkedSeriesIterator over real XOR chunk bytes): 1..3 chunks holding the concrete samples t=10,20 | 30,40 | 50 (values 1..5), an arbitrary requested range [mint, maxt] (any int64), a script of 3 steps (thorough 5), each Next or Seek(x) with arbitrary x; the script ends at the first ValNone
//vp:assume every streamed chunk overlaps the requested range (MinTimeMs <= maxt and MaxTimeMs >= mint: the server selects chunks by that range); the chunks of a streamed series are time-ordered and carry MinTimeMs/MaxTimeMs of their first/last sample; float chunks only
package remote

import (
	"math"

	"github.com/prometheus/prometheus/prompb"
	"github.com/prometheus/prometheus/tsdb/chunkenc"
)

func vpH_C42_chunkedIterator_script() {
	layout := [][]int64{{10, 20}, {30, 40}, {50}}
	nc := vpShape("chunks", 1, 3)
	var chks []prompb.Chunk
	var ts []int64
	var vs []float64
	val := 1.0
	for _, cts := range layout[:nc] {
		c := chunkenc.NewXORChunk()
		app, err := c.Appender()
		if err != nil {
			panic(err)
		}
		for _, t := range cts {
			app.Append(0, t, val)
			ts, vs = append(ts, t), append(vs, val)
			val++
		}
		chks = append(chks, prompb.Chunk{MinTimeMs: cts[0], MaxTimeMs: cts[len(cts)-1], Type: prompb.Chunk_XOR, Data: c.Bytes()})
	}
	mint, maxt := vpInt64(), vpInt64()
	for _, c := range chks { // a server only streams chunks that overlap the requested range
		vpAssume(vpAnd(c.MinTimeMs <= maxt, c.MaxTimeMs >= mint))
	}
	it := newChunkedSeriesIterator(chks, mint, maxt)
	steps := 3
	if vpThorough() {
		steps = 5
	}
	cur := int64(math.MinInt64)
	started := false
	for s := 0; s < steps; s++ {
		var r chunkenc.ValueType
		var lo int64
		stay := false
		if vpShape("op", 0, 1) == 0 {
			r = it.Next()
			lo = cur
			if started {
				lo = cur + 1
			}
		} else {
			x := vpInt64()
			r = it.Seek(x)
			if started && cur >= x {
				stay = true
			}
			lo = x
			if started && !stay && x <= cur {
				lo = cur + 1
			}
		}
		var want int64 = math.MaxInt64
		wantV := 0.0
		if stay {
			want = cur
		} else {
			for i := range ts {
				better := vpAnd(vpAnd(ts[i] >= lo, ts[i] < want), vpAnd(ts[i] >= mint, ts[i] <= maxt))
				want = vpIte(better, ts[i], want)
			}
		}
		for i := range ts {
			wantV = vpIte(ts[i] == want, vs[i], wantV)
		}
		vpObserve("r", uint8(r))
		if want == math.MaxInt64 {
			vpAssert(r == chunkenc.ValNone, "ValNone when no sample of the requested range qualifies")
			vpReach("exhausted")
			return
		}
		vpAssert(r == chunkenc.ValFloat, "a qualifying sample is found")
		if r != chunkenc.ValFloat {
			return
		}
		gt, gv := it.At()
		vpObserve("t", gt)
		vpAssert(gt == want, "the next sample of the requested range in time order is returned, none skipped or repeated")
		vpAssert(math.Float64bits(gv) == math.Float64bits(wantV), "sample value")
		cur, started = want, true
	}
	vpReach("end")
}
