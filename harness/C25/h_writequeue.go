//vp:property C25
//vp:pkg ./tsdb/chunks
//vp:roots ./tsdb/chunkenc time
//vp:bounds read-back while the asynchronous write is pending (chunkWriteQueue.addJob / get / processJob with the real job queue and reference map; the worker goroutine is replaced by explicit processJob calls in the history): every sequential history of 6 operations drawn from {add the next chunk, let the worker write the oldest queued chunk (succeeding or failing), look a chunk up}; at every moment after addJob returned, each added chunk is either handed out by get (the very object that was added) or has been passed to the disk writer, and the completion callback ran exactly once per chunk with the writer's result
//vp:assume sequential histories (the worker's steps are interleaved explicitly); references concrete 1..4; the queue never fills up (capacity 8)
package chunks

import (
	"errors"
	"os"
	"time"

	"github.com/prometheus/client_golang/prometheus"

	"github.com/prometheus/prometheus/tsdb/chunkenc"
)

func vpH_C25_write_queue_readback() {
	written := map[ChunkDiskMapperRef]chunkenc.Chunk{}
	failNext := false
	errDisk := errors.New("disk")
	q := &chunkWriteQueue{
		jobs:        newWriteJobQueue(8, 2),
		chunkRefMap: map[ChunkDiskMapperRef]chunkenc.Chunk{},
		isRunning:   true,
		adds:        prometheus.NewCounter(prometheus.CounterOpts{Name: "a"}),
		gets:        prometheus.NewCounter(prometheus.CounterOpts{Name: "b"}),
		completed:   prometheus.NewCounter(prometheus.CounterOpts{Name: "c"}),
		shrink:      prometheus.NewCounter(prometheus.CounterOpts{Name: "d"}),
	}
	q.writeChunk = func(_ HeadSeriesRef, _, _ int64, chk chunkenc.Chunk, ref ChunkDiskMapperRef, _, _ bool) error {
		if failNext {
			return errDisk
		}
		written[ref] = chk
		return nil
	}
	if vpShape("shrinkArmed", 0, 1) == 1 {
		// as after a burst of >= 1000 pending chunks long ago: the reference map may be re-initialised as soon as it is empty
		q.chunkRefMapPeakSize = 2 * chunkRefMapShrinkThreshold
		q.chunkRefMapLastShrink = time.Time{}
	}
	var added []chunkenc.Chunk
	callbacks := map[ChunkDiskMapperRef]int{}
	failed := map[ChunkDiskMapperRef]bool{}
	processed := 0
	for step := 0; step < 6; step++ {
		switch vpShape("op", 0, 3) {
		case 0:
			if len(added) >= 4 {
				continue
			}
			ref := ChunkDiskMapperRef(len(added) + 1)
			chk := chunkenc.NewXORChunk()
			err := q.addJob(chunkWriteJob{seriesRef: 1, chk: chk, ref: ref, callback: func(err error) {
				callbacks[ref]++
				if err != nil {
					failed[ref] = true
				}
			}})
			vpAssert(err == nil, "a running queue accepts the chunk")
			added = append(added, chk)
		case 1, 2:
			if processed >= len(added) {
				continue
			}
			failNext = false
			if vpShape("diskFails", 0, 1) == 1 {
				failNext = true
			}
			job, ok := q.jobs.pop()
			vpAssert(ok, "the worker finds the queued job")
			q.processJob(job)
			processed++
		case 3:
			// lookups are checked after every step below
		}
		for i, chk := range added {
			ref := ChunkDiskMapperRef(i + 1)
			got := q.get(ref)
			if i >= processed {
				vpAssert(got == chk, "a chunk whose write is still pending is handed out from memory, the very object that was added")
			} else {
				vpAssert(got == nil, "after the write completed the queue no longer holds the chunk")
				vpAssert(callbacks[ref] == 1, "the completion callback ran exactly once")
				vpAssert(failed[ref] || written[ref] == chk, "a completed write put exactly that chunk on disk, or its failure was reported to the callback")
			}
		}
		vpAssert(q.jobs.length() == len(added)-processed, "queue length = pending writes")
	}
	vpObserve("added", len(added))
	vpReach("end")
}

// A chunk whose write is still queued is served from the queue by ChunkDiskMapper.Chunk whatever file its
// reference points into (the file may not even have been cut yet).
func vpH_C25_chunk_pending_in_queue() {
	q := &chunkWriteQueue{
		jobs:        newWriteJobQueue(8, 2),
		chunkRefMap: map[ChunkDiskMapperRef]chunkenc.Chunk{},
		isRunning:   true,
		adds:        prometheus.NewCounter(prometheus.CounterOpts{Name: "a"}),
		gets:        prometheus.NewCounter(prometheus.CounterOpts{Name: "b"}),
		completed:   prometheus.NewCounter(prometheus.CounterOpts{Name: "c"}),
		shrink:      prometheus.NewCounter(prometheus.CounterOpts{Name: "d"}),
	}
	q.writeChunk = func(HeadSeriesRef, int64, int64, chunkenc.Chunk, ChunkDiskMapperRef, bool, bool) error { return nil }
	cdm := &ChunkDiskMapper{
		mmappedChunkFiles: map[int]*mmappedChunkFile{},
		curFileSequence:   2,
		pool:              chunkenc.NewPool(),
		chunkBuffer:       newChunkBuffer(),
		writeQueue:        q,
	}
	vpNative(func() {
		d, err := os.Open(os.TempDir())
		if err != nil {
			panic(err)
		}
		cdm.dir = d
	})
	seq := vpShape("fileOfTheReference", 1, 3) // an older file, the current one, or the next one (cut pending)
	ref := newChunkDiskMapperRef(uint64(seq), uint64(HeadChunkFileHeaderSize))
	chk := chunkenc.NewXORChunk()
	vpAssert(q.addJob(chunkWriteJob{seriesRef: 1, chk: chk, ref: ref, cutFile: seq == 3}) == nil, "queued")
	got, err := cdm.Chunk(ref)
	vpNative(func() { cdm.dir.Close() })
	vpObserve("err", err != nil)
	vpAssert(err == nil && got == chk, "a chunk whose write is pending is read back from the queue, the very object that was handed in")
	vpReach("end")
}
