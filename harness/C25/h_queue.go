//vp:property C25
//vp:pkg ./tsdb/chunks
//vp:roots ./tsdb/chunkenc
//vp:bounds the job queue behind the asynchronous head-chunk writer (writeJobQueue.push / pop / length / close with its linked segments): segment size 2, capacity 4, every sequential history of 7 operations drawn from {push (only when not full), pop (only when not empty), close}, jobs tagged with arbitrary series references; pops return the pushed jobs in push order exactly once, length counts the queued jobs, a closed queue refuses pushes and still hands out what it holds
//vp:assume sequential use (the blocking waits on a full or empty queue are not modelled: the history never pushes to a full queue nor pops from an empty open one)
package chunks

func vpH_C25_write_job_queue_history() {
	q := newWriteJobQueue(4, 2)
	var ref []HeadSeriesRef
	closed := false
	for step := 0; step < 7; step++ {
		switch vpShape("op", 0, 2) {
		case 0: // push
			if len(ref) >= 4 {
				continue
			}
			id := HeadSeriesRef(vpUint64())
			ok := q.push(chunkWriteJob{seriesRef: id})
			vpAssert(ok == !closed, "push succeeds exactly while the queue is open")
			if ok {
				ref = append(ref, id)
			}
		case 1: // pop
			if len(ref) == 0 && !closed {
				continue
			}
			j, ok := q.pop()
			vpAssert(ok == (len(ref) > 0), "pop succeeds exactly when something is queued (also after close)")
			if ok && len(ref) > 0 {
				vpObserve("ref", uint64(j.seriesRef))
				vpAssert(j.seriesRef == ref[0], "jobs come out in push order, each once")
				ref = ref[1:]
			}
		case 2:
			q.close()
			closed = true
		}
		vpAssert(q.length() == len(ref), "length counts the queued jobs")
	}
	vpReach("end")
}
