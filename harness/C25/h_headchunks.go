//vp:property C25
//vp:pkg ./tsdb/chunks
//vp:roots ./tsdb/chunkenc
//vp:bounds ChunkDiskMapper.IterateAllChunks over one m-mapped head chunk file given as an arbitrary byte string: 8 header bytes, then L arbitrary bytes with L in {20, 33..37} (thorough up to 40: room for one chunk record with up to 6 data bytes, truncated at every length); CRC32 is an uninterpreted function of the exact bytes
//vp:assume checksums are an uninterpreted function; the file is not the one currently written to (its whole length is scanned)
package chunks

import (
	"encoding/binary"
	"os"

	"github.com/prometheus/prometheus/tsdb/chunkenc"
)

type vpXCB struct {
	series       HeadSeriesRef
	ref          ChunkDiskMapperRef
	mint, maxt   int64
	n            uint16
	enc          chunkenc.Encoding
	ooo          bool
}

// After a restart, iteration yields only completed chunks whose checksum matches, wholly inside the file,
// in offset order, with the series, time range, sample count and encoding stored in the bytes; a torn
// or damaged tail is reported as corruption or as a clean end - never as a chunk; no panic.
func vpH_C25_headChunks_bytes() {
	var L int
	if vpThorough() {
		L = vpShape("L", 33, 40)
	} else {
		L = []int{20, 33, 34, 35, 36, 37}[vpShape("Lsel", 0, 5)]
	}
	file := make([]byte, HeadChunkFileHeaderSize+L)
	for i := HeadChunkFileHeaderSize; i < len(file); i++ {
		file[i] = vpByte()
	}
	cdm := &ChunkDiskMapper{
		mmappedChunkFiles: map[int]*mmappedChunkFile{1: {byteSlice: realByteSlice(file)}},
		curFileSequence:   2,
		pool:              chunkenc.NewPool(),
	}
	vpNative(func() {
		d, err := os.Open(os.TempDir())
		if err != nil {
			panic(err)
		}
		cdm.dir = d
	})
	var cbs []vpXCB
	var err error
	panicked := vpPanics(func() {
		err = cdm.IterateAllChunks(func(s HeadSeriesRef, r ChunkDiskMapperRef, mint, maxt int64, n uint16, enc chunkenc.Encoding, ooo bool) error {
			cbs = append(cbs, vpXCB{s, r, mint, maxt, n, enc, ooo})
			return nil
		})
	})
	vpNative(func() { cdm.dir.Close() })
	vpAssert(!panicked, "no panic on arbitrary file bytes")
	if panicked {
		return
	}
	vpObserve("err", err != nil)
	vpObserve("ncb", len(cbs))
	prevEnd := HeadChunkFileHeaderSize
	for _, cb := range cbs {
		seq, off := cb.ref.Unpack()
		vpAssert(seq == 1, "file number")
		vpAssert(off == prevEnd, "chunks are yielded in offset order, back to back")
		if off != prevEnd || off+MaxHeadChunkMetaSize > len(file) {
			vpAssert(off+MaxHeadChunkMetaSize <= len(file), "record header inside the file")
			return
		}
		p := off
		vpAssert(uint64(cb.series) == binary.BigEndian.Uint64(file[p:]), "series reference as stored")
		vpAssert(cb.mint == int64(binary.BigEndian.Uint64(file[p+8:])) && cb.maxt == int64(binary.BigEndian.Uint64(file[p+16:])), "time range as stored")
		encByte := file[p+24]
		vpAssert(cb.enc == chunkenc.Encoding(encByte&0x7f) && cb.ooo == (encByte&0x80 != 0), "encoding and out-of-order flag as stored")
		dataLen, k := binary.Uvarint(file[p+25 : p+25+MaxChunkLengthFieldSize])
		if !(k > 0 && dataLen < 1<<16) {
			// a malformed length prefix under a matching checksum: checksum-valid garbage, which the
			// writer never produces; what the reader makes of it is outside the claim (DESIGN C04/C25)
			vpReach("checksum-valid garbage")
			return
		}
		dataStart := p + 25 + k
		crcAt := dataStart + int(dataLen)
		vpAssert(crcAt+CRCSize <= len(file), "a yielded chunk lies wholly inside the file")
		if crcAt+CRCSize > len(file) {
			return
		}
		vpAssert(cb.n == binary.BigEndian.Uint16(file[dataStart:]), "sample count as stored")
		stored := binary.BigEndian.Uint32(file[crcAt:])
		vpAssert(stored == newCRC32Sum(file[p:crcAt]), "a chunk is yielded only if its stored checksum matches")
		prevEnd = crcAt + CRCSize
	}
	if err == nil {
		// clean end: only at the end of the file, at an all-zero tail too short for a record header, or at the
		// end marker the writer's preallocation leaves (series reference 0 with zero mint and maxt)
		rest := len(file) - prevEnd
		if rest >= MaxHeadChunkMetaSize {
			zero := true
			for _, b := range file[prevEnd : prevEnd+SeriesRefSize+2*MintMaxtSize] {
				zero = vpAnd(zero, b == 0)
			}
			vpAssert(zero, "iteration ends silently only at the end marker (series 0, mint 0, maxt 0), never at a record")
		} else {
			zero := true
			for _, b := range file[prevEnd:] {
				zero = vpAnd(zero, b == 0)
			}
			vpAssert(zero, "a short tail is accepted only if it is all zeros")
		}
		vpReach("clean end")
	} else {
		vpReach("corruption reported")
	}
}

func newCRC32Sum(b []byte) uint32 {
	h := newCRC32()
	h.Write(b)
	return binary.BigEndian.Uint32(h.Sum(nil))
}
