//vp:property C25
//vp:pkg ./tsdb/chunks
//vp:roots ./tsdb/chunkenc github.com/dennwc/varint
//vp:bounds head chunk placement (chunkPos.getNextChunkRef / shouldCutNewFile / bytesToWriteForChunk / toNewFile): arbitrary position state (any file sequence < 2^31, any offset 0..MaxHeadChunkFileSize, cut flag), chunk payload lengths {0, 1, 127, 128, 16383, 16384} (every uvarint length-prefix size in reach); the reference handed out lies, with its whole record (series ref, times, encoding, length prefix, payload, checksum), inside the file size the file is m-mapped with
//vp:assume the position state is one the mapper can be in: offset 0 (nothing written yet) or between the file header and the maximum file size
package chunks

import (
	"encoding/binary"

	"github.com/prometheus/prometheus/tsdb/chunkenc"
)

type vpXLenChunk struct {
	chunkenc.Chunk
	b []byte
}

func (c vpXLenChunk) Bytes() []byte { return c.b }

func vpH_C25_chunk_placement() {
	n := []int{0, 1, 127, 128, 16383, 16384}[vpShape("payload", 0, 5)]
	f := &chunkPos{seq: vpUint64(), offset: vpUint64(), cutFile: vpBool()}
	vpAssume(f.seq < 1<<31)
	vpAssume(vpOr(f.offset == 0, vpAnd(f.offset >= SegmentHeaderSize, f.offset <= MaxHeadChunkFileSize)))
	seq0, off0, flag0 := f.seq, f.offset, f.cutFile
	ref, cut := f.getNextChunkRef(vpXLenChunk{b: make([]byte, n)})
	var tmp [binary.MaxVarintLen64]byte
	record := uint64(SeriesRefSize + 2*MintMaxtSize + ChunkEncodingSize + binary.PutUvarint(tmp[:], uint64(n)) + n + CRCSize)
	gseq, goff := ref.Unpack()
	vpObserve("cut", cut)
	vpObserve("off", goff)
	vpAssert(cut == vpOr(flag0, vpOr(off0 == 0, off0+record > MaxHeadChunkFileSize)), "a new file is cut exactly when asked to, at the very first chunk, or when the whole record does not fit")
	if cut {
		vpAssert(uint64(gseq) == seq0+1 && uint64(goff) == SegmentHeaderSize, "after a cut the chunk is the first record of the next file")
	} else {
		vpAssert(uint64(gseq) == seq0 && uint64(goff) == off0, "otherwise the chunk goes to the current position")
	}
	vpAssert(uint64(goff)+record <= MaxHeadChunkFileSize, "the whole record lies inside the maximum (m-mapped) file size")
	vpAssert(f.offset == uint64(goff)+record && !f.cutFile, "the position advances by exactly the record size")
	vpReach("placed")
}
