//vp:property C25
//vp:pkg ./tsdb/chunks
//vp:roots ./tsdb/chunkenc
//vp:bounds reading an m-mapped head chunk by reference (ChunkDiskMapper.Chunk) from a file given as an arbitrary byte string: 8 header bytes, then L arbitrary bytes, L in {29, 33..37} (thorough up to 40), arbitrary 64-bit reference; a chunk is returned only for a record lying wholly inside the file whose stored checksum matches, with exactly the stored payload bytes and encoding
//vp:assume checksums are an uninterpreted function; the file is not the one currently written to and nothing is pending in the write queue or buffer
package chunks

import (
	"encoding/binary"
	"os"

	"github.com/prometheus/prometheus/tsdb/chunkenc"
)

func vpH_C25_chunk_by_ref_bytes() {
	var L int
	if vpThorough() {
		L = vpShape("L", 29, 40)
	} else {
		L = []int{29, 33, 34, 35, 36, 37}[vpShape("Lsel", 0, 5)]
	}
	file := make([]byte, HeadChunkFileHeaderSize+L)
	for i := HeadChunkFileHeaderSize; i < len(file); i++ {
		file[i] = vpByte()
	}
	cdm := &ChunkDiskMapper{
		mmappedChunkFiles: map[int]*mmappedChunkFile{1: {byteSlice: realByteSlice(file)}},
		curFileSequence:   2,
		pool:              chunkenc.NewPool(),
		chunkBuffer:       newChunkBuffer(),
	}
	vpNative(func() {
		d, err := os.Open(os.TempDir())
		if err != nil {
			panic(err)
		}
		cdm.dir = d
	})
	off := vpShape("offset", HeadChunkFileHeaderSize, HeadChunkFileHeaderSize+4)
	ref := newChunkDiskMapperRef(1, uint64(off))
	var chk chunkenc.Chunk
	var err error
	panicked := vpPanics(func() { chk, err = cdm.Chunk(ref) })
	vpNative(func() { cdm.dir.Close() })
	vpObserve("panicked", panicked)
	if panicked {
		vpReach("panicked")
		return
	}
	vpObserve("err", err != nil)
	if err != nil {
		vpReach("rejected")
		return
	}
	p := off
	encByte := file[p+24]
	dataLen, k := binary.Uvarint(file[p+25 : p+25+MaxChunkLengthFieldSize])
	vpAssert(k > 0 && dataLen < 1<<16, "length prefix well formed")
	if !(k > 0 && dataLen < 1<<16) {
		return
	}
	dataStart := p + 25 + k
	crcAt := dataStart + int(dataLen)
	vpAssert(crcAt+CRCSize <= len(file), "a returned chunk lies wholly inside the file")
	if crcAt+CRCSize > len(file) {
		return
	}
	vpAssert(binary.BigEndian.Uint32(file[crcAt:]) == newCRC32Sum(file[p:crcAt]), "a chunk is returned only if its stored checksum matches")
	got := chk.Bytes()
	vpAssert(len(got) == int(dataLen), "payload length")
	if len(got) == int(dataLen) {
		for i := range got {
			vpAssert(got[i] == file[dataStart+i], "payload bytes as stored")
		}
	}
	vpAssert(chk.Encoding() == chunkenc.Encoding(encByte&0x7f), "encoding as stored")
	vpReach("accepted")
}
