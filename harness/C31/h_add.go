//vp:property C31
//vp:pkg ./model/histogram
//vp:roots ./util/kahansum
//vp:bounds bucket-wise addition and subtraction of two float histograms of the same schema (0) - or with the operand at schema 1, reduced to schema 0 first - and the same zero threshold (FloatHistogram.Add / Sub / KahanAdd with addBuckets / kahanAddBuckets): layouts of up to 2 spans per histogram on the positive side, lengths 0..2 (zero-length spans included, also leading), first offset 0..1, later offsets 0..2, the whole case split; bucket counts are small concrete integers (so every sum is exact), the negative side one common bucket; a second harness gives the operand a wider zero bucket (threshold at the upper bound of bucket index 0 or 1), so that the receiver's buckets below it move into the zero count; the result holds, at every bucket index, the sum (difference) of the operands' counts, count/sum/zero count add up, and the operand is unchanged
//vp:assume concrete small integer counts: floating-point rounding, resolution reduction and zero-threshold reconciliation are outside (see DESIGN: symbolic float arithmetic is out of reach)
package histogram

func vpXLayoutZ(name string) ([]Span, []int) {
	n := vpShape(name+"spans", 0, 2)
	spans := make([]Span, n)
	var idxs []int
	idx := 0
	for i := range spans {
		var off int
		if i == 0 {
			off = vpShape(name+"off0", 0, 1)
		} else {
			off = vpShape(name+"off", 0, 2)
		}
		l := vpShape(name+"len", 0, 2)
		spans[i] = Span{Offset: int32(off), Length: uint32(l)}
		idx += off
		for j := 0; j < l; j++ {
			idxs = append(idxs, idx)
			idx++
		}
	}
	return spans, idxs
}

func vpXValAt(spans []Span, vals []float64, q int) (float64, bool) {
	idx := 0
	di := 0
	for si, s := range spans {
		if si == 0 {
			idx = int(s.Offset)
		} else {
			idx += int(s.Offset)
		}
		for j := uint32(0); j < s.Length; j++ {
			if di >= len(vals) {
				return 0, false
			}
			if idx == q {
				return vals[di], true
			}
			di++
			idx++
		}
	}
	return 0, true
}

func vpH_C31_add_sub_small_integers() {
	aSp, aIdx := vpXLayoutZ("a")
	bSp, bIdx := vpXLayoutZ("b")
	av := make([]float64, len(aIdx))
	bv := make([]float64, len(bIdx))
	for i := range av {
		av[i] = float64(16 + i)
	}
	for i := range bv {
		bv[i] = float64(1 + i)
	}
	one := []Span{{Offset: 0, Length: 1}}
	a := &FloatHistogram{Schema: 0, ZeroThreshold: 0.001, ZeroCount: 4, Count: 100, Sum: 8, PositiveSpans: aSp, PositiveBuckets: av, NegativeSpans: one, NegativeBuckets: []float64{7}}
	bSchema := int32(vpShape("operandSchema", 0, 1)) // 1: the operand has twice the resolution and is reduced first
	b := &FloatHistogram{Schema: bSchema, ZeroThreshold: 0.001, ZeroCount: 1, Count: 10, Sum: 2, PositiveSpans: bSp, PositiveBuckets: bv, NegativeSpans: one, NegativeBuckets: []float64{2}}
	bCopy := b.Copy()
	op := vpShape("op", 0, 2) // 0 Add, 1 Sub, 2 KahanAdd
	var r *FloatHistogram
	var err error
	sign := 1.0
	switch op {
	case 0:
		r, _, _, err = a.Copy().Add(b)
	case 1:
		r, _, _, err = a.Copy().Sub(b)
		sign = -1
	case 2:
		r = a.Copy()
		_, _, _, err = r.KahanAdd(b, nil) // the receiver is updated in place; the compensation terms are all zero for exact sums
	}
	vpAssert(err == nil, "same schema and threshold: no error")
	if err != nil {
		return
	}
	vpAssert(b.Equals(bCopy), "the operand is unchanged")
	vpAssert(r.Count == 100+sign*10 && r.ZeroCount == 4+sign*1 && r.Sum == 8+sign*2, "count, zero count and sum add up")
	for q := 0; q <= 7; q++ {
		x, _ := vpXValAt(aSp, av, q)
		y := 0.0
		for j, k := range bIdx {
			tq := k
			if bSchema == 1 {
				tq = ((k - 1) >> 1) + 1
			}
			if tq == q {
				y += bv[j]
			}
		}
		got, ok := vpXValAt(r.PositiveSpans, r.PositiveBuckets, q)
		vpAssert(ok, "result spans match its buckets")
		vpObserve("got", got)
		vpAssert(got == x+sign*y, "every bucket index holds the sum (difference) of the operands' counts")
	}
	nb := 0
	for _, s := range r.PositiveSpans {
		nb += int(s.Length)
	}
	vpAssert(nb == len(r.PositiveBuckets), "result spans match its buckets")
	ng, _ := vpXValAt(r.NegativeSpans, r.NegativeBuckets, 0)
	vpAssert(ng == 7+sign*2, "negative side")
	vpReach("end")
}

// The same with an operand whose zero bucket is wider than the receiver's.
func vpH_C31_add_sub_zero_threshold() {
	aSp, aIdx := vpXLayoutZ("a")
	bSp, bIdx := vpXLayoutZ("b")
	av := make([]float64, len(aIdx))
	bv := make([]float64, len(bIdx))
	for i := range av {
		av[i] = float64(16 + i)
	}
	for i := range bv {
		bv[i] = float64(1 + i)
	}
	one := []Span{{Offset: 0, Length: 1}}
	a := &FloatHistogram{Schema: 0, ZeroThreshold: 0.001, ZeroCount: 4, Count: 100, Sum: 8, PositiveSpans: aSp, PositiveBuckets: av, NegativeSpans: one, NegativeBuckets: []float64{7}}
	// the operand has the wider zero bucket: threshold 1 (= upper bound of bucket index 0) or 2 (bucket index 1);
	// its own buckets lie above its threshold, so its layout is shifted by that many indexes
	shift := vpShape("operandThresholdIndex", 1, 2)
	bSchema := int32(0)
	if len(bSp) > 0 {
		bSp[0].Offset += int32(shift)
	}
	for j := range bIdx {
		bIdx[j] += shift
	}
	bNeg := []Span{{Offset: int32(shift), Length: 1}}
	b := &FloatHistogram{Schema: 0, ZeroThreshold: float64(shift), ZeroCount: 1, Count: 10, Sum: 2, PositiveSpans: bSp, PositiveBuckets: bv, NegativeSpans: bNeg, NegativeBuckets: []float64{2}}
	bCopy := b.Copy()
	op := vpShape("op", 0, 2) // 0 Add, 1 Sub, 2 KahanAdd
	var r *FloatHistogram
	var err error
	sign := 1.0
	switch op {
	case 0:
		r, _, _, err = a.Copy().Add(b)
	case 1:
		r, _, _, err = a.Copy().Sub(b)
		sign = -1
	case 2:
		r = a.Copy()
		_, _, _, err = r.KahanAdd(b, nil) // the receiver is updated in place; the compensation terms are all zero for exact sums
	}
	vpAssert(err == nil, "same schema and threshold: no error")
	if err != nil {
		return
	}
	vpAssert(b.Equals(bCopy), "the operand is unchanged")
	// the receiver's buckets inside the wider zero bucket (index < shift, both sides) move into the zero count
	moved := 7.0 // its negative bucket at index 0
	for j, k := range aIdx {
		if k < shift {
			moved += av[j]
		}
	}
	vpAssert(r.ZeroThreshold == float64(shift), "the result has the wider zero threshold")
	vpAssert(r.Count == 100+sign*10 && r.ZeroCount == 4+moved+sign*1 && r.Sum == 8+sign*2, "count and sum add up; the zero count also takes the receiver's buckets inside the wider zero bucket")
	for q := 0; q <= 9; q++ {
		x, _ := vpXValAt(aSp, av, q)
		if q < shift {
			x = 0
		}
		y := 0.0
		for j, k := range bIdx {
			tq := k
			if bSchema == 1 {
				tq = ((k - 1) >> 1) + 1
			}
			if tq == q {
				y += bv[j]
			}
		}
		got, ok := vpXValAt(r.PositiveSpans, r.PositiveBuckets, q)
		vpAssert(ok, "result spans match its buckets")
		vpObserve("got", got)
		vpAssert(got == x+sign*y, "every bucket index holds the sum (difference) of the operands' counts")
	}
	nb := 0
	for _, s := range r.PositiveSpans {
		nb += int(s.Length)
	}
	vpAssert(nb == len(r.PositiveBuckets), "result spans match its buckets")
	ng0, _ := vpXValAt(r.NegativeSpans, r.NegativeBuckets, 0)
	ngs, _ := vpXValAt(r.NegativeSpans, r.NegativeBuckets, shift)
	vpAssert(ng0 == 0 && ngs == sign*2, "negative side")
	vpReach("end")
}

// The same with the receiver holding the wider zero bucket (the operand's buckets inside it go to the zero count).
func vpH_C31_add_sub_zero_threshold_receiver_wider() {
	aSp, aIdx := vpXLayoutZ("a")
	bSp, bIdx := vpXLayoutZ("b")
	av := make([]float64, len(aIdx))
	bv := make([]float64, len(bIdx))
	for i := range av {
		av[i] = float64(16 + i)
	}
	for i := range bv {
		bv[i] = float64(1 + i)
	}
	one := []Span{{Offset: 0, Length: 1}}
	a := &FloatHistogram{Schema: 0, ZeroThreshold: 0.001, ZeroCount: 4, Count: 100, Sum: 8, PositiveSpans: aSp, PositiveBuckets: av, NegativeSpans: one, NegativeBuckets: []float64{7}}
	// the operand has the wider zero bucket: threshold 1 (= upper bound of bucket index 0) or 2 (bucket index 1);
	// its own buckets lie above its threshold, so its layout is shifted by that many indexes
	shift := vpShape("operandThresholdIndex", 1, 2)
	bSchema := int32(0)
	if len(bSp) > 0 {
		bSp[0].Offset += int32(shift)
	}
	for j := range bIdx {
		bIdx[j] += shift
	}
	bNeg := []Span{{Offset: int32(shift), Length: 1}}
	b := &FloatHistogram{Schema: 0, ZeroThreshold: float64(shift), ZeroCount: 1, Count: 10, Sum: 2, PositiveSpans: bSp, PositiveBuckets: bv, NegativeSpans: bNeg, NegativeBuckets: []float64{2}}
	aCopy := a.Copy()
	op := vpShape("op", 0, 2) // 0 Add, 1 Sub, 2 KahanAdd
	var r *FloatHistogram
	var err error
	sign := 1.0
	switch op {
	case 0:
		r, _, _, err = b.Copy().Add(a)
	case 1:
		r, _, _, err = b.Copy().Sub(a)
		sign = -1
	case 2:
		r = b.Copy()
		_, _, _, err = r.KahanAdd(a, nil) // the receiver is updated in place; the compensation terms are all zero for exact sums
	}
	vpAssert(err == nil, "same schema and threshold: no error")
	if err != nil {
		return
	}
	vpAssert(a.Equals(aCopy), "the operand is unchanged")
	// the receiver's buckets inside the wider zero bucket (index < shift, both sides) move into the zero count
	moved := 7.0 // its negative bucket at index 0
	for j, k := range aIdx {
		if k < shift {
			moved += av[j]
		}
	}
	vpAssert(r.ZeroThreshold == float64(shift), "the result has the wider zero threshold")
	vpAssert(r.Count == 10+sign*100 && r.ZeroCount == 1+sign*(4+moved) && r.Sum == 2+sign*8, "count and sum add up; the operand's buckets inside the receiver's wider zero bucket go to the zero count")
	for q := 0; q <= 9; q++ {
		y, _ := vpXValAt(aSp, av, q) // operand
		if q < shift {
			y = 0
		}
		x := 0.0 // receiver
		for j, k := range bIdx {
			if k == q {
				x += bv[j]
			}
		}
		_ = bSchema
		got, ok := vpXValAt(r.PositiveSpans, r.PositiveBuckets, q)
		vpAssert(ok, "result spans match its buckets")
		vpObserve("got", got)
		vpAssert(got == x+sign*y, "every bucket index holds the sum (difference) of the operands' counts")
	}
	nb := 0
	for _, s := range r.PositiveSpans {
		nb += int(s.Length)
	}
	vpAssert(nb == len(r.PositiveBuckets), "result spans match its buckets")
	ng0, _ := vpXValAt(r.NegativeSpans, r.NegativeBuckets, 0)
	ngs, _ := vpXValAt(r.NegativeSpans, r.NegativeBuckets, shift)
	vpAssert(ng0 == 0 && ngs == 2, "negative side: the operand's bucket inside the zero bucket is counted once, in the zero count")
	vpReach("end")
}


// Resolution reduction on float histograms (the absolute-count path of reduceResolution): each target
// bucket holds the sum of the source buckets it covers (small integer counts, exact sums).
func vpH_C31_reduce_resolution_float() {
	sp, idx := vpXLayoutZ("h")
	vals := make([]float64, len(idx))
	for i := range vals {
		vals[i] = float64(1 + i)
	}
	steps := vpShape("steps", 1, 2)
	first := vpShape("firstOffset", -3, 2) // shifts the layout so that negative and positive indexes are hit
	if len(sp) > 0 {
		sp[0].Offset += int32(first)
	}
	h := &FloatHistogram{Schema: int32(steps), Count: 50, Sum: 1, PositiveSpans: sp, PositiveBuckets: vals}
	r := h.Copy()
	vpAssert(r.ReduceResolution(0) == nil, "reduction succeeds")
	vpAssert(r.Schema == 0, "target schema")
	for q := -3; q <= 6; q++ {
		want := 0.0
		for j, k := range idx {
			if (((k+first)-1)>>uint(steps))+1 == q {
				want += vals[j]
			}
		}
		got, ok := vpXValAt(r.PositiveSpans, r.PositiveBuckets, q)
		vpAssert(ok, "result spans match its buckets")
		vpObserve("got", got)
		vpAssert(got == want, "each target bucket holds the sum of the source buckets it covers")
	}
	nb := 0
	for _, s := range r.PositiveSpans {
		nb += int(s.Length)
	}
	vpAssert(nb == len(r.PositiveBuckets), "result spans match its buckets")
	vpReach("end")
}
