//vp:property C31
//vp:pkg ./model/histogram
//vp:bounds counter-reset detection (FloatHistogram.DetectReset / detectReset / floatBucketIterator) for two exponential float histograms of the same schema (0) and zero threshold: layouts of up to 2 spans per histogram on the populated side enumerated concretely (lengths 1..2, first offset 0..1, later offsets 1..2; thorough lengths 0..2, offsets -1..1 / 0..2), populated side positive or negative, the other side empty or one common bucket; every count, zero count and bucket count an arbitrary non-negative non-NaN float64 (compare-only); hint unknown or gauge
//vp:assume same schema and zero threshold (the resolution / threshold / bucket-type / mismatched-custom-bounds branches involve floating-point arithmetic or are not covered)
package histogram

import "math"

func vpXLayoutH(name string) ([]Span, []int) {
	lenLo, off0Lo, off0Hi, offLo, offHi := 1, 0, 1, 1, 2
	if vpThorough() {
		lenLo, off0Lo, off0Hi, offLo, offHi = 0, -1, 1, 0, 2
	}
	n := vpShape(name+"spans", 0, 2)
	spans := make([]Span, n)
	var idxs []int
	idx := 0
	for i := range spans {
		var off int
		if i == 0 {
			off = vpShape(name+"off0", off0Lo, off0Hi)
		} else {
			off = vpShape(name+"off", offLo, offHi)
		}
		l := vpShape(name+"len", lenLo, 2)
		spans[i] = Span{Offset: int32(off), Length: uint32(l)}
		idx += off
		for j := 0; j < l; j++ {
			idxs = append(idxs, idx)
			idx++
		}
	}
	return spans, idxs
}

func vpXNonNeg() float64 {
	f := vpFloat64()
	vpAssume(vpAnd(!math.IsNaN(f), f >= 0))
	return f
}

// A reset is reported exactly when the count, the zero count or some bucket count decreased
// (a bucket missing from the current histogram counts as 0).
func vpH_C31_detect_reset_same_schema() {
	pSp, pIdx := vpXLayoutH("prev")
	cSp, cIdx := vpXLayoutH("curr")
	pv := make([]float64, len(pIdx))
	cv := make([]float64, len(cIdx))
	for i := range pv {
		pv[i] = vpXNonNeg()
	}
	for i := range cv {
		cv[i] = vpXNonNeg()
	}
	prev := &FloatHistogram{Schema: 0, ZeroThreshold: 0.001, ZeroCount: vpXNonNeg(), Count: vpXNonNeg()}
	curr := &FloatHistogram{Schema: 0, ZeroThreshold: 0.001, ZeroCount: vpXNonNeg(), Count: vpXNonNeg()}
	if vpShape("hint", 0, 1) == 1 {
		curr.CounterResetHint = GaugeType
	}
	other := vpShape("otherSide", 0, 2) // 0 empty; 1 one common bucket, not decreased; 2 one common bucket, decreased
	neg := vpShape("negativeSide", 0, 1) == 1
	oSp := []Span{{Offset: 0, Length: 1}}
	if neg {
		prev.NegativeSpans, prev.NegativeBuckets, curr.NegativeSpans, curr.NegativeBuckets = pSp, pv, cSp, cv
		if other > 0 {
			prev.PositiveSpans, prev.PositiveBuckets, curr.PositiveSpans, curr.PositiveBuckets = oSp, []float64{5}, oSp, []float64{float64(9 - 3*other)}
		}
	} else {
		prev.PositiveSpans, prev.PositiveBuckets, curr.PositiveSpans, curr.PositiveBuckets = pSp, pv, cSp, cv
		if other > 0 {
			prev.NegativeSpans, prev.NegativeBuckets, curr.NegativeSpans, curr.NegativeBuckets = oSp, []float64{5}, oSp, []float64{float64(9 - 3*other)}
		}
	}
	got := curr.DetectReset(prev)
	want := vpOr(curr.Count < prev.Count, curr.ZeroCount < prev.ZeroCount)
	want = vpOr(want, other == 2)
	for i, idx := range pIdx {
		c := 0.0
		for j, jdx := range cIdx {
			if jdx == idx {
				c = cv[j]
			}
		}
		want = vpOr(want, c < pv[i])
	}
	vpObserve("reset", got)
	vpAssert(got == want, "reset reported exactly when the count, the zero count or a bucket count decreased")
	vpReach("end")
}

// Float twin of compaction: FloatHistogram.Compact never changes the value of any bucket index
// (zero and absent are the same total; the comparison is on bits except that an absent bucket counts as +0).
func vpH_C31_compact_float() {
	ps, _ := vpXSide("p", vpXMaxSpans())
	n := 0
	for _, s := range ps {
		n += int(s.Length)
	}
	vals := make([]float64, n)
	for i := range vals {
		if vpShape("zero", 0, 1) == 1 {
			vals[i] = 0
		} else {
			vals[i] = vpXNonNeg()
			vpAssume(vals[i] != 0)
		}
	}
	h := &FloatHistogram{Schema: 1, PositiveSpans: ps, PositiveBuckets: vals}
	q := vpInt32()
	before, _, okb := vpXCountAtF(ps, vals, q)
	vpAssume(okb)
	me := vpShape("maxEmpty", 0, 2)
	c := h.Copy().Compact(me)
	after, _, ok := vpXCountAtF(c.PositiveSpans, c.PositiveBuckets, q)
	vpObserve("nspans", len(c.PositiveSpans))
	vpObserve("nbuckets", len(c.PositiveBuckets))
	vpAssert(ok, "span lengths match the bucket list")
	vpAssert(after == before, "compaction preserves every bucket total")
	orig, _, _ := vpXCountAtF(h.PositiveSpans, h.PositiveBuckets, q)
	vpAssert(orig == before, "original unchanged")
	vpReach("end")
}

// Copying into a used target (the buffer reuse every iterator and ring buffer relies on) gives the same
// histogram as a fresh copy: nothing of the target's previous content survives.
func vpH_C31_copyto_dirty_target() {
	mk := func(variant int) *FloatHistogram {
		switch variant {
		case 0:
			return &FloatHistogram{}
		case 1:
			return &FloatHistogram{Schema: 2, ZeroThreshold: 0.5, ZeroCount: vpXNonNeg(), Count: vpXNonNeg(), Sum: vpFloat64(), CounterResetHint: GaugeType,
				PositiveSpans: []Span{{Offset: 1, Length: 2}, {Offset: 3, Length: 1}}, PositiveBuckets: []float64{1, vpXNonNeg(), 3},
				NegativeSpans: []Span{{Offset: -2, Length: 1}}, NegativeBuckets: []float64{vpXNonNeg()}}
		default:
			return &FloatHistogram{Schema: CustomBucketsSchema, Count: vpXNonNeg(), Sum: vpFloat64(), CustomValues: []float64{1, 2.5},
				PositiveSpans: []Span{{Offset: 0, Length: 3}}, PositiveBuckets: []float64{vpXNonNeg(), 0, 2}}
		}
	}
	src := mk(vpShape("source", 0, 2))
	dst := mk(vpShape("target", 0, 2))
	fresh := src.Copy()
	src.CopyTo(dst)
	vpObserve("nspans", len(dst.PositiveSpans))
	same := func(a, b *FloatHistogram) bool {
		ok := a.Schema == b.Schema && a.CounterResetHint == b.CounterResetHint &&
			math.Float64bits(a.ZeroThreshold) == math.Float64bits(b.ZeroThreshold) && math.Float64bits(a.ZeroCount) == math.Float64bits(b.ZeroCount) &&
			math.Float64bits(a.Count) == math.Float64bits(b.Count) && math.Float64bits(a.Sum) == math.Float64bits(b.Sum) &&
			len(a.PositiveSpans) == len(b.PositiveSpans) && len(a.NegativeSpans) == len(b.NegativeSpans) &&
			len(a.PositiveBuckets) == len(b.PositiveBuckets) && len(a.NegativeBuckets) == len(b.NegativeBuckets) && len(a.CustomValues) == len(b.CustomValues)
		if !ok {
			return false
		}
		for i := range a.PositiveSpans {
			ok = ok && a.PositiveSpans[i] == b.PositiveSpans[i]
		}
		for i := range a.NegativeSpans {
			ok = ok && a.NegativeSpans[i] == b.NegativeSpans[i]
		}
		for i := range a.PositiveBuckets {
			ok = vpAnd(ok, math.Float64bits(a.PositiveBuckets[i]) == math.Float64bits(b.PositiveBuckets[i]))
		}
		for i := range a.NegativeBuckets {
			ok = vpAnd(ok, math.Float64bits(a.NegativeBuckets[i]) == math.Float64bits(b.NegativeBuckets[i]))
		}
		for i := range a.CustomValues {
			ok = ok && a.CustomValues[i] == b.CustomValues[i]
		}
		return ok
	}
	vpAssert(same(dst, fresh), "CopyTo into a used target equals a fresh copy, field by field")
	vpAssert(same(src, fresh), "the source is unchanged")
	vpReach("end")
}

// Integer to float conversion into a used target: same result as into a fresh one, every bucket holding
// the absolute count (concrete small counts; the symbolic-count version is out of reach, see DESIGN).
func vpH_C31_tofloat_dirty_target() {
	mkI := func(variant int) *Histogram {
		switch variant {
		case 0:
			return &Histogram{Schema: 1, ZeroThreshold: 0.25, ZeroCount: 2, Count: 15, Sum: 3.5,
				PositiveSpans: []Span{{Offset: 0, Length: 2}, {Offset: 2, Length: 1}}, PositiveBuckets: []int64{3, -1, 4},
				NegativeSpans: []Span{{Offset: 1, Length: 1}}, NegativeBuckets: []int64{4}}
		case 1:
			return &Histogram{Schema: CustomBucketsSchema, Count: 6, Sum: 9, CustomValues: []float64{1, 2},
				PositiveSpans: []Span{{Offset: 0, Length: 3}}, PositiveBuckets: []int64{1, 1, 1}}
		default:
			return &Histogram{CounterResetHint: GaugeType}
		}
	}
	src := mkI(vpShape("source", 0, 2))
	dirty := mkI(vpShape("target", 0, 2)).ToFloat(nil)
	fresh := src.ToFloat(nil)
	got := src.ToFloat(dirty)
	vpAssert(got == dirty, "the provided target is the one filled")
	vpAssert(got.Equals(fresh) && got.CounterResetHint == fresh.CounterResetHint && math.Float64bits(got.Sum) == math.Float64bits(fresh.Sum), "conversion into a used target equals conversion into a fresh one")
	var abs int64
	for i, d := range src.PositiveBuckets {
		abs += d
		vpAssert(i < len(got.PositiveBuckets) && got.PositiveBuckets[i] == float64(abs), "every positive bucket holds the absolute count")
	}
	abs = 0
	for i, d := range src.NegativeBuckets {
		abs += d
		vpAssert(i < len(got.NegativeBuckets) && got.NegativeBuckets[i] == float64(abs), "every negative bucket holds the absolute count")
	}
	vpAssert(got.Count == float64(src.Count) && got.ZeroCount == float64(src.ZeroCount), "count and zero count")
	vpObserve("n", len(got.PositiveBuckets))
	vpReach("end")
}
