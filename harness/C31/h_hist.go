//vp:property C31
//vp:pkg ./model/histogram
//vp:bounds Histogram.Compact, ReduceResolution and ToFloat on integer histograms with up to 2 spans per side (thorough 3) of length 0..2, span offsets symbolic in [-4,4] (first) / [0,3] (later), every int64 bucket delta whose running counts stay in [0, 2^53); maxEmptyBuckets 0..2; schema 1..4 reduced by 1..3 steps (span offsets there concrete: first in [-2,2], later in [0,2]; every target index -2..5); zero-length spans included
//vp:assume bucket counts are non-negative and below 2^53 (exactly representable as float64); span offsets after the first are non-negative (Validate)
package histogram

import "math"

// vpXCountAt decodes the absolute count at bucket index q from a delta-encoded bucket list.
func vpXCountAt(spans []Span, deltas []int64, q int32) (int64, bool) {
	var got, cur int64
	var idx int32
	di := 0
	ok := true
	for si, s := range spans {
		if si == 0 {
			idx = s.Offset
		} else {
			idx += s.Offset
		}
		for j := uint32(0); j < s.Length; j++ {
			if di >= len(deltas) {
				return got, false
			}
			cur += deltas[di]
			di++
			got += vpIte(idx == q, cur, 0)
			idx++
		}
	}
	return got, ok && di == len(deltas)
}

func vpXCountAtF(spans []Span, vals []float64, q int32) (uint64, bool, bool) {
	var got uint64 // bits of the value at q (0 if absent)
	found := false
	var idx int32
	di := 0
	for si, s := range spans {
		if si == 0 {
			idx = s.Offset
		} else {
			idx += s.Offset
		}
		for j := uint32(0); j < s.Length; j++ {
			if di >= len(vals) {
				return got, found, false
			}
			got = vpIte(idx == q, math.Float64bits(vals[di]), got)
			found = vpOr(found, idx == q)
			di++
			idx++
		}
	}
	return got, found, di == len(vals)
}

// vpXSide builds one side of a histogram: nspans spans with lengths from the shape, symbolic offsets and deltas.
func vpXSide(name string, maxSpans int) ([]Span, []int64) { return vpXSideOpt(name, maxSpans, false) }

// with concreteOffsets the span offsets come from the shape (first in [-2,2], later in [0,2]) instead of being symbolic
func vpXSideOpt(name string, maxSpans int, concreteOffsets bool) ([]Span, []int64) {
	n := vpShape(name+"spans", 0, maxSpans)
	spans := make([]Span, n)
	var deltas []int64
	var cur int64
	for i := range spans {
		l := vpShape(name+"len", 0, 2)
		var off int32
		switch {
		case concreteOffsets && i == 0:
			off = int32(vpShape(name+"off0", -2, 2))
		case concreteOffsets:
			off = int32(vpShape(name+"off", 0, 2))
		default:
			off = vpInt32()
			if i == 0 {
				vpAssume(vpAnd(off >= -4, off <= 4))
			} else {
				vpAssume(vpAnd(off >= 0, off <= 3))
			}
		}
		spans[i] = Span{Offset: off, Length: uint32(l)}
		for j := 0; j < l; j++ {
			d := vpInt64()
			cur += d
			vpAssume(vpAnd(cur >= 0, cur < 1<<53))
			deltas = append(deltas, d)
		}
	}
	return spans, deltas
}

func vpXMaxSpans() int {
	if vpThorough() {
		return 3
	}
	return 2
}

// Compaction never changes the total of any bucket.
func vpH_C31_compact_int() {
	ps, pb := vpXSide("p", vpXMaxSpans())
	h := &Histogram{Schema: 1, PositiveSpans: ps, PositiveBuckets: pb}
	q := vpInt32()
	before, okb := vpXCountAt(ps, pb, q)
	vpAssume(okb)
	me := vpShape("maxEmpty", 0, 2)
	c := h.Copy().Compact(me)
	after, ok := vpXCountAt(c.PositiveSpans, c.PositiveBuckets, q)
	vpObserve("nspans", len(c.PositiveSpans))
	vpObserve("nbuckets", len(c.PositiveBuckets))
	for i := range c.PositiveBuckets {
		vpObserve("b", c.PositiveBuckets[i])
	}
	vpAssert(ok, "span lengths match the bucket list")
	vpAssert(after == before, "compaction preserves every bucket total")
	// the caller's histogram is not modified by working on a copy
	orig, _ := vpXCountAt(h.PositiveSpans, h.PositiveBuckets, q)
	vpAssert(orig == before, "original unchanged")
	vpReach("end")
}

// Resolution reduction: each target bucket holds the sum of the source buckets it covers.
func vpH_C31_reduceResolution_int() {
	ps, pb := vpXSideOpt("p", vpXMaxSpans(), true)
	schema := int32(vpShape("schema", 1, 4))
	steps := vpShape("steps", 1, 3)
	target := schema - int32(steps)
	h := &Histogram{Schema: schema, PositiveSpans: ps, PositiveBuckets: pb}
	q := int32(vpShape("q", -2, 5)) // every target index the layouts above can produce
	// reference: source index k maps to ((k-1)>>d)+1
	var want, cur int64
	var idx int32
	di := 0
	for si, s := range ps {
		if si == 0 {
			idx = s.Offset
		} else {
			idx += s.Offset
		}
		for j := uint32(0); j < s.Length; j++ {
			cur += pb[di]
			di++
			want += vpIte(((idx-1)>>uint(steps))+1 == q, cur, 0)
			idx++
		}
	}
	r := h.Copy()
	err := r.ReduceResolution(target)
	vpAssert(err == nil, "no error for a valid reduction")
	if err != nil {
		return
	}
	got, ok := vpXCountAt(r.PositiveSpans, r.PositiveBuckets, q)
	vpObserve("nspans", len(r.PositiveSpans))
	for i := range r.PositiveBuckets {
		vpObserve("b", r.PositiveBuckets[i])
	}
	vpAssert(ok, "span lengths match the bucket list")
	vpAssert(r.Schema == target, "schema updated")
	vpAssert(got == want, "each target bucket holds the sum of the source buckets it covers")
	vpReach("end")
}

