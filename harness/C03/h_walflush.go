//vp:property C03
//vp:pkg ./tsdb/wlog
//vp:roots ./util/compression io
//vp:budget steps=4000000
//vp:bounds necessary condition (a) of durability - no acknowledgement without hand-off to the OS: WL.Log / log / flushPage over an in-memory segment file whose every Write may fail (symbolic fault flag per call, short count on failure); page pre-filled so that rem in {0,6,7,9,20} bytes remain, then a batch of two records of n in {0,5,13} and 2 arbitrary bytes; the thorough tier widens the sets of page remainders, record sizes and cut offsets (see the harness)
//vp:assume a crash loses exactly what was not yet passed to the file's Write; fsync, rename protocols, replay and repair (Head.Init, WL.Repair) are outside: the property as a whole is not decided
package wlog

import (
	"errors"
	"os"

	"github.com/prometheus/prometheus/util/compression"
)

var vpXErrWrite = errors.New("write fault")

type vpXFaultyFile struct {
	data   []byte
	faults []bool
	calls  int
	failed bool
}

func (f *vpXFaultyFile) Stat() (os.FileInfo, error) { return nil, nil }
func (f *vpXFaultyFile) Sync() error                { return nil }
func (f *vpXFaultyFile) Write(p []byte) (int, error) {
	i := f.calls
	f.calls++
	if i < len(f.faults) && f.faults[i] {
		f.failed = true
		return 0, vpXErrWrite
	}
	f.data = append(f.data, p...)
	return len(p), nil
}
func (f *vpXFaultyFile) Read([]byte) (int, error) { return 0, errors.New("write-only") }
func (f *vpXFaultyFile) Close() error             { return nil }

// If Log returns nil, no write to the segment file failed and every byte of every fragment of the
// batch (header, payload, page padding) has been passed to the file; a failed write is reported.
func vpH_C03_log_handoff() {
	rems, ns := []int{0, 6, 7, 9, 20}, []int{0, 5, 13}
	if vpThorough() {
		rems, ns = []int{0, 1, 3, 6, 7, 8, 9, 10, 12, 20, 33}, []int{0, 1, 2, 5, 6, 13, 14, 26}
	}
	rem := rems[vpShape("rem", 0, len(rems)-1)]
	n := ns[vpShape("n", 0, len(ns)-1)]
	file := &vpXFaultyFile{}
	w := &WL{segmentSize: 4 * pageSize, page: &page{}, segment: &Segment{SegmentFile: file}, compress: compression.None}
	w.metrics = newWLMetrics(w, nil)
	rec0 := make([]byte, pageSize-recordHeaderSize-rem)
	if err := w.Log(rec0); err != nil {
		panic(err)
	}
	base := len(file.data)
	allocBefore := w.page.alloc
	pagesBefore := w.donePages
	file.faults = []bool{false, vpBool(), vpBool(), vpBool()} // call 0 was the prefill
	rec1 := make([]byte, n)
	for i := range rec1 {
		rec1[i] = vpByte()
	}
	rec2 := []byte{vpByte(), vpByte()}
	err := w.Log(rec1, rec2)
	vpObserve("err", err != nil)
	vpObserve("written", len(file.data)-base)
	if err == nil {
		vpAssert(!file.failed, "an acknowledged batch saw no failed write")
		vpAssert(w.page.flushed == w.page.alloc, "nothing of an acknowledged batch is left unflushed in the page buffer")
		// bytes handed over since the batch started = bytes appended to pages since then (incl. padding of completed pages)
		appended := (w.donePages-pagesBefore)*pageSize + w.page.alloc - allocBefore
		vpAssert(len(file.data)-base == appended, "every byte appended to the log pages was passed to the file")
		vpAssert(appended >= len(rec1)+len(rec2)+2*recordHeaderSize, "the batch's headers and payloads are all there")
		vpReach("acknowledged")
	} else {
		vpAssert(file.failed, "Log fails only when a write failed")
		vpReach("reported")
	}
}
