//vp:property C03
//vp:pkg ./tsdb
//vp:tags verif
//vp:roots ./tsdb/wlog ./tsdb/record ./tsdb/encoding ./model/labels ./model/histogram ./tsdb/chunks ./util/compression ./util/zeropool io github.com/dennwc/varint
//vp:budget steps=4000000
//vp:bounds necessary condition (b): headAppenderBase.log (what Commit runs before making samples visible) over a real wlog.WL on an in-memory segment file (wlog.NewForVerif, build tag verif) whose every Write may fail: 0..1 new series, two batches of 0..1 float samples and 0..1 integer histograms (one exponential, in the second batch a custom-bucket one), small field values; read back with the real wlog.Reader and record.Decoder
//vp:assume record fields small (their full ranges are decided under C14); Commit returns log's error before committing anything (read off the code: the only caller returns on error after rollback)
package tsdb

import (
	"bytes"
	"errors"
	"math"
	"os"

	"github.com/prometheus/prometheus/model/histogram"
	"github.com/prometheus/prometheus/model/labels"
	"github.com/prometheus/prometheus/tsdb/chunks"
	"github.com/prometheus/prometheus/tsdb/record"
	"github.com/prometheus/prometheus/tsdb/wlog"
)

var vpXErrW = errors.New("write fault")

type vpXWFile struct {
	data   []byte
	faults []bool
	calls  int
	failed bool
}

func (f *vpXWFile) Stat() (os.FileInfo, error) { return nil, nil }
func (f *vpXWFile) Sync() error                { return nil }
func (f *vpXWFile) Write(p []byte) (int, error) {
	i := f.calls
	f.calls++
	if i < len(f.faults) && f.faults[i] {
		f.failed = true
		return 0, vpXErrW
	}
	f.data = append(f.data, p...)
	return len(p), nil
}
func (f *vpXWFile) Read([]byte) (int, error) { return 0, errors.New("write-only") }
func (f *vpXWFile) Close() error             { return nil }

func vpXSm() uint64 {
	v := vpUint64()
	vpAssume(v < 64)
	return v
}

// If log returns nil, every pending series, float sample and histogram of every batch was encoded into
// exactly one record handed to the WAL, series records first, custom-bucket histograms in their own
// record; if any WAL write fails, log returns an error (so Commit rolls back and reports it).
func vpH_C03_headLog_order_faults() {
	file := &vpXWFile{faults: []bool{vpBool(), vpBool(), vpBool(), vpBool()}}
	h := &Head{wal: wlog.NewForVerif(file, 4)}
	a := &headAppenderBase{head: h}
	nSeries := vpShape("series", 0, 1)
	for i := 0; i < nSeries; i++ {
		a.seriesRefs = append(a.seriesRefs, record.RefSeries{Ref: chunks.HeadSeriesRef(vpXSm()), Labels: labels.FromStrings("a", "b")})
	}
	var wantF []record.RefSample
	var wantH []record.RefHistogramSample
	var wantKinds, gotKinds []record.Type // data records in the order replay must see them
	for b := 0; b < 2; b++ {
		batch := &appendBatch{}
		if vpShape("floats", 0, 1) == 1 {
			s := record.RefSample{Ref: chunks.HeadSeriesRef(vpXSm()), T: int64(vpXSm()), V: vpFloat64()}
			batch.floats = append(batch.floats, s)
			wantF = append(wantF, s)
		}
		hk := vpShape("hists", 0, 3) // 0 none, 1 exponential, 2 custom buckets, 3 both in this batch
		if len(batch.floats) > 0 {
			wantKinds = append(wantKinds, record.Samples)
		}
		if hk&1 != 0 {
			hh := &histogram.Histogram{Count: vpXSm(), Sum: 1}
			s := record.RefHistogramSample{Ref: chunks.HeadSeriesRef(vpXSm()), T: int64(vpXSm()), H: hh}
			batch.histograms = append(batch.histograms, s)
			wantH = append(wantH, s)
			wantKinds = append(wantKinds, record.HistogramSamples)
		}
		if hk&2 != 0 {
			hh := &histogram.Histogram{Count: vpXSm(), Sum: 1, Schema: histogram.CustomBucketsSchema, CustomValues: []float64{1}}
			s := record.RefHistogramSample{Ref: chunks.HeadSeriesRef(vpXSm()), T: int64(vpXSm()), H: hh}
			batch.histograms = append(batch.histograms, s)
			wantH = append(wantH, s)
			wantKinds = append(wantKinds, record.CustomBucketsHistogramSamples)
		}
		a.batches = append(a.batches, batch)
	}
	err := a.log()
	vpObserve("err", err != nil)
	if err != nil {
		vpAssert(file.failed, "log fails only when a write to the WAL failed")
		vpReach("fault reported")
		return
	}
	vpAssert(!file.failed, "a successful log saw no failed write")
	r := wlog.NewReader(bytes.NewReader(file.data))
	var dec record.Decoder
	gotSeries, gotF, gotH := 0, 0, 0
	sawData := false
	for r.Next() {
		rec := r.Record()
		switch dec.Type(rec) {
		case record.Series:
			vpAssert(!sawData, "series records precede the samples that reference them")
			ss, derr := dec.Series(rec, nil)
			vpAssert(derr == nil, "series record decodes")
			for _, s := range ss {
				vpAssert(gotSeries < nSeries && s.Ref == a.seriesRefs[gotSeries].Ref && labels.Equal(s.Labels, a.seriesRefs[gotSeries].Labels), "series as pending")
				gotSeries++
			}
		case record.Samples:
			sawData = true
			gotKinds = append(gotKinds, record.Samples)
			ss, derr := dec.Samples(rec, nil)
			vpAssert(derr == nil, "sample record decodes")
			for _, s := range ss {
				vpAssert(gotF < len(wantF), "no extra sample")
				if gotF < len(wantF) {
					w := wantF[gotF]
					vpAssert(s.Ref == w.Ref && s.T == w.T && math.Float64bits(s.V) == math.Float64bits(w.V), "sample as pending, batch order kept")
				}
				gotF++
			}
		case record.HistogramSamples, record.CustomBucketsHistogramSamples:
			sawData = true
			gotKinds = append(gotKinds, dec.Type(rec))
			hs, derr := dec.HistogramSamples(rec, nil)
			vpAssert(derr == nil, "histogram record decodes")
			for _, x := range hs {
				vpAssert(gotH < len(wantH), "no extra histogram")
				if gotH < len(wantH) {
					w := wantH[gotH]
					vpAssert(x.Ref == w.Ref && x.T == w.T && x.H.Count == w.H.Count && x.H.Schema == w.H.Schema, "histogram as pending")
				}
				gotH++
			}
		default:
			vpAssert(false, "unexpected record type")
		}
	}
	vpAssert(r.Err() == nil, "log readable to its end")
	vpAssert(gotSeries == nSeries && gotF == len(wantF) && gotH == len(wantH), "every pending item was logged exactly once")
	vpAssert(len(gotKinds) == len(wantKinds), "one record per sample kind and batch")
	if len(gotKinds) == len(wantKinds) {
		for i := range wantKinds {
			vpAssert(gotKinds[i] == wantKinds[i], "records in replay order: per batch float samples, then histograms, then custom-bucket histograms")
		}
	}
	vpReach("logged")
}
