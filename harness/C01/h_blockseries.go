//vp:property C01
//vp:pkg ./tsdb
//vp:roots ./storage ./tsdb/chunkenc ./tsdb/chunks ./tsdb/tombstones ./tsdb/index ./model/labels ./model/histogram
//vp:bounds read path kernel (newBlockSeriesSet -> blockBaseSeriesSet.Next -> blockSeriesEntry.Iterator -> populateWithDelSeriesIterator / DeletedIterator / Intervals.Add): one series stored as k<=2 chunks of 1..2 float samples (a single chunk: 1..3; thorough 1..3 throughout) in a block-like reader, j<=1 tombstone intervals (thorough 2), arbitrary closed query range [mint, maxt], all timestamps symbolic (chunk i entirely before chunk i+1, |t|<=2^62), interval bounds and query bounds full int64, values arbitrary bits; result drained with Next, or Seek(x) then Next
//vp:assume chunk metas carry MinTime/MaxTime equal to their first/last sample; tombstone intervals canonical (sorted, non-overlapping, non-adjacent); harness index/chunk/tombstone readers return exactly the stored data
package tsdb

import (
	"math"

	"github.com/prometheus/prometheus/model/histogram"
	"github.com/prometheus/prometheus/model/labels"
	"github.com/prometheus/prometheus/storage"
	"github.com/prometheus/prometheus/tsdb/chunkenc"
	"github.com/prometheus/prometheus/tsdb/chunks"
	"github.com/prometheus/prometheus/tsdb/index"
	"github.com/prometheus/prometheus/tsdb/tombstones"
)

type vpXS struct {
	t int64
	v float64
}

type vpXListIter struct {
	ss []vpXS
	i  int
}

func (l *vpXListIter) Next() chunkenc.ValueType {
	if l.i < len(l.ss) {
		l.i++
	}
	if l.i >= len(l.ss) {
		return chunkenc.ValNone
	}
	return chunkenc.ValFloat
}
func (l *vpXListIter) Seek(t int64) chunkenc.ValueType {
	if l.i < 0 {
		l.i = 0
	}
	for l.i < len(l.ss) && l.ss[l.i].t < t {
		l.i++
	}
	if l.i >= len(l.ss) {
		return chunkenc.ValNone
	}
	return chunkenc.ValFloat
}
func (l *vpXListIter) At() (int64, float64) { return l.ss[l.i].t, l.ss[l.i].v }
func (l *vpXListIter) AtHistogram(*histogram.Histogram) (int64, *histogram.Histogram) {
	panic("no histograms")
}
func (l *vpXListIter) AtFloatHistogram(*histogram.FloatHistogram) (int64, *histogram.FloatHistogram) {
	panic("no histograms")
}
func (l *vpXListIter) AtT() int64  { return l.ss[l.i].t }
func (l *vpXListIter) AtST() int64 { return 0 }
func (l *vpXListIter) Err() error  { return nil }

// vpXChunk is a list-backed chunkenc.Chunk.
type vpXChunk struct {
	chunkenc.Chunk
	ss []vpXS
}

func (c *vpXChunk) Iterator(chunkenc.Iterator) chunkenc.Iterator { return &vpXListIter{ss: c.ss, i: -1} }
func (c *vpXChunk) NumSamples() int                              { return len(c.ss) }
func (c *vpXChunk) Encoding() chunkenc.Encoding                  { return chunkenc.EncXOR }
func (c *vpXChunk) Bytes() []byte                                { return nil }

type vpXIndex struct {
	IndexReader
	metas []chunks.Meta
}

func (x *vpXIndex) Series(ref storage.SeriesRef, b *labels.ScratchBuilder, chks *[]chunks.Meta) error {
	b.Reset()
	*chks = append((*chks)[:0], x.metas...)
	return nil
}

type vpXChunks struct {
	ChunkReader
	byRef map[chunks.ChunkRef]*vpXChunk
}

func (c *vpXChunks) ChunkOrIterable(m chunks.Meta) (chunkenc.Chunk, chunkenc.Iterable, error) {
	return c.byRef[m.Ref], nil, nil
}

type vpXTombs struct {
	tombstones.Reader
	ivs tombstones.Intervals
}

func (t *vpXTombs) Get(storage.SeriesRef) (tombstones.Intervals, error) { return t.ivs, nil }

func vpXSetup() (all []vpXS, ivs tombstones.Intervals, mint, maxt int64, it chunkenc.Iterator, ok bool) {
	nHi, jHi := 2, 1
	if vpThorough() {
		nHi, jHi = 3, 2
	}
	k := vpShape("chunks", 1, 2)
	if !vpThorough() && k == 1 {
		nHi = 3 // quick: a single chunk may hold 3 samples (a sample strictly between the range end and a later tombstone)
	}
	idx := &vpXIndex{}
	cr := &vpXChunks{byRef: map[chunks.ChunkRef]*vpXChunk{}}
	var prev int64
	for c := 0; c < k; c++ {
		n := vpShape("n", 1, nHi)
		ss := make([]vpXS, n)
		for i := range ss {
			ss[i] = vpXS{t: vpInt64(), v: vpFloat64()}
			vpAssume(vpAnd(ss[i].t >= -(1<<62), ss[i].t <= 1<<62))
			if len(all) > 0 || i > 0 {
				vpAssume(prev < ss[i].t)
			}
			prev = ss[i].t
			all = append(all, ss[i])
		}
		ref := chunks.ChunkRef(c + 1)
		cr.byRef[ref] = &vpXChunk{ss: ss}
		idx.metas = append(idx.metas, chunks.Meta{Ref: ref, MinTime: ss[0].t, MaxTime: ss[n-1].t})
	}
	j := vpShape("intervals", 0, jHi)
	for i := 0; i < j; i++ {
		iv := tombstones.Interval{Mint: vpInt64(), Maxt: vpInt64()}
		vpAssume(iv.Mint <= iv.Maxt)
		if i > 0 {
			vpAssume(vpAnd(ivs[i-1].Maxt < iv.Mint, ivs[i-1].Maxt+1 < iv.Mint))
		}
		ivs = append(ivs, iv)
	}
	mint, maxt = vpInt64(), vpInt64()
	vpAssume(mint <= maxt)
	set := newBlockSeriesSet(idx, cr, &vpXTombs{ivs: append(tombstones.Intervals(nil), ivs...)}, index.NewListPostings([]storage.SeriesRef{1}), mint, maxt, false)
	if !set.Next() {
		vpAssert(set.Err() == nil, "no error")
		return all, ivs, mint, maxt, nil, false
	}
	return all, ivs, mint, maxt, set.At().Iterator(nil), true
}

func vpXVisible(s vpXS, ivs tombstones.Intervals, mint, maxt int64) bool {
	vis := vpAnd(s.t >= mint, s.t <= maxt)
	for _, iv := range ivs {
		vis = vpAnd(vis, !vpAnd(iv.Mint <= s.t, s.t <= iv.Maxt))
	}
	return vis
}

func vpXCheckRead(all []vpXS, out []vpXS, ivs tombstones.Intervals, mint, maxt, from int64) {
	for i, o := range out {
		vpObserve("t", o.t)
		vpObserve("v", o.v)
		if i > 0 {
			vpAssert(out[i-1].t < o.t, "increasing time order, each timestamp once")
		}
		member := false
		for _, s := range all {
			member = vpOr(member, vpAnd(vpAnd(s.t == o.t, math.Float64bits(s.v) == math.Float64bits(o.v)), vpXVisible(s, ivs, mint, maxt)))
		}
		vpAssert(member, "every returned sample is a stored, undeleted sample inside the range")
		vpAssert(o.t >= from, "nothing before the Seek target")
	}
	for _, s := range all {
		present := false
		for _, o := range out {
			present = vpOr(present, o.t == s.t)
		}
		vpAssert(vpImplies(vpAnd(vpXVisible(s, ivs, mint, maxt), s.t >= from), present), "no stored, undeleted sample inside the range is lost")
	}
}

func vpH_C01_blockSeries_next() {
	all, ivs, mint, maxt, it, ok := vpXSetup()
	var out []vpXS
	if ok {
		for it.Next() == chunkenc.ValFloat {
			t, v := it.At()
			out = append(out, vpXS{t, v})
			if len(out) > 8 {
				break
			}
		}
		vpAssert(it.Err() == nil, "no error")
	}
	vpXCheckRead(all, out, ivs, mint, maxt, math.MinInt64)
	vpReach("end")
}

func vpH_C01_blockSeries_seek() {
	all, ivs, mint, maxt, it, ok := vpXSetup()
	x := vpInt64()
	var out []vpXS
	if ok {
		if it.Seek(x) == chunkenc.ValFloat {
			t, v := it.At()
			out = append(out, vpXS{t, v})
			for it.Next() == chunkenc.ValFloat {
				t, v := it.At()
				out = append(out, vpXS{t, v})
				if len(out) > 8 {
					break
				}
			}
		}
		vpAssert(it.Err() == nil, "no error")
	}
	vpXCheckRead(all, out, ivs, mint, maxt, x)
	vpReach("end")
}
