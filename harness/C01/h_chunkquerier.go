//vp:property C01
//vp:pkg ./tsdb
//vp:backend z3-new
//vp:roots ./storage ./tsdb/chunkenc ./tsdb/chunks ./tsdb/tombstones ./tsdb/index ./model/labels ./model/histogram ./model/value
//vp:intercept github.com/prometheus/prometheus/tsdb/chunkenc.NewEmptyChunk => vpXNewEmptyChunkC01
//vp:bounds chunk-level read path (newBlockChunkSeriesSet -> blockBaseSeriesSet.Next -> populateWithDelChunkSeriesIterator: chunks untouched by deletions are passed through, chunks cut by a tombstone or by the query range are re-encoded without the deleted samples): same stored series, tombstones and query ranges as the sample-level harness; decoding the returned chunks yields exactly the stored, undeleted samples inside the range, in order, and every chunk's MinTime/MaxTime are its first/last sample
//vp:assume in the engine the chunks created for re-encoding (chunkenc.NewEmptyChunk) are list-backed chunks obeying the Chunk/Appender contract (XOR bit coding is C10's subject); the native replay uses real XOR chunks
package tsdb

import (
	"math"

	"github.com/oklog/ulid/v2"

	"github.com/prometheus/prometheus/model/histogram"
	"github.com/prometheus/prometheus/storage"
	"github.com/prometheus/prometheus/tsdb/chunkenc"
	"github.com/prometheus/prometheus/tsdb/chunks"
	"github.com/prometheus/prometheus/tsdb/index"
	"github.com/prometheus/prometheus/tsdb/tombstones"
)

type vpXAppChunk struct {
	vpXChunk
}

type vpXListApp struct{ c *vpXAppChunk }

func (a vpXListApp) Append(_, t int64, v float64) { a.c.ss = append(a.c.ss, vpXS{t, v}) }
func (a vpXListApp) AppendHistogram(chunkenc.Appender, int64, int64, *histogram.Histogram, bool) (chunkenc.Chunk, bool, chunkenc.Appender, error) {
	panic("no histograms")
}
func (a vpXListApp) AppendFloatHistogram(chunkenc.Appender, int64, int64, *histogram.FloatHistogram, bool) (chunkenc.Chunk, bool, chunkenc.Appender, error) {
	panic("no histograms")
}
func (c *vpXAppChunk) Appender() (chunkenc.Appender, error) { return vpXListApp{c}, nil }
func (c *vpXAppChunk) Iterator(chunkenc.Iterator) chunkenc.Iterator {
	return &vpXListIter{ss: c.ss, i: -1}
}
func (c *vpXAppChunk) NumSamples() int                              { return len(c.ss) }
func vpXNewEmptyChunkC01(chunkenc.Encoding) (chunkenc.Chunk, error) { return &vpXAppChunk{}, nil }

func vpH_C01_blockChunkSeries() {
	nHi := 2
	k := vpShape("chunks", 1, 2)
	if k == 1 {
		nHi = 3
	}
	idx := &vpXIndex{}
	cr := &vpXChunks{byRef: map[chunks.ChunkRef]*vpXChunk{}}
	var all []vpXS
	var prev int64
	for c := 0; c < k; c++ {
		n := vpShape("n", 1, nHi)
		ss := make([]vpXS, n)
		for i := range ss {
			ss[i] = vpXS{t: vpInt64(), v: vpFloat64()}
			vpAssume(vpAnd(ss[i].t >= -(1<<62), ss[i].t <= 1<<62))
			if len(all) > 0 || i > 0 {
				vpAssume(prev < ss[i].t)
			}
			prev = ss[i].t
			all = append(all, ss[i])
		}
		ref := chunks.ChunkRef(c + 1)
		cr.byRef[ref] = &vpXChunk{ss: ss}
		idx.metas = append(idx.metas, chunks.Meta{Ref: ref, MinTime: ss[0].t, MaxTime: ss[n-1].t})
	}
	var ivs tombstones.Intervals
	if vpShape("intervals", 0, 1) == 1 {
		iv := tombstones.Interval{Mint: vpInt64(), Maxt: vpInt64()}
		vpAssume(iv.Mint <= iv.Maxt)
		ivs = append(ivs, iv)
	}
	mint, maxt := vpInt64(), vpInt64()
	vpAssume(mint <= maxt)
	set := NewBlockChunkSeriesSet(ulid.ULID{}, idx, cr, &vpXTombs{ivs: append(tombstones.Intervals(nil), ivs...)}, index.NewListPostings([]storage.SeriesRef{1}), mint, maxt, false)
	var out []vpXS
	if set.Next() {
		it := set.At().Iterator(nil)
		prevMax := int64(math.MinInt64)
		nch := 0
		for it.Next() {
			m := it.At()
			if nch > 0 {
				vpAssert(m.MinTime > prevMax, "chunks time-ordered")
			}
			nch++
			ci := m.Chunk.Iterator(nil)
			first := true
			var lastT int64
			cnt := 0
			for ci.Next() == chunkenc.ValFloat {
				t, v := ci.At()
				if first {
					vpAssert(t == m.MinTime, "chunk MinTime is its first sample")
					first = false
				}
				lastT = t
				out = append(out, vpXS{t, v})
				cnt++
				if len(out) > 8 {
					break
				}
			}
			vpAssert(cnt > 0 && lastT == m.MaxTime, "chunk MaxTime is its last sample")
			prevMax = m.MaxTime
			if nch > 4 {
				break
			}
		}
		vpAssert(it.Err() == nil, "no error")
	}
	vpAssert(set.Err() == nil, "no error")
	vpXCheckRead(all, out, ivs, mint, maxt, math.MinInt64)
	vpReach("end")
}
