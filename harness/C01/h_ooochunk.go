//vp:property C01
//vp:pkg ./tsdb
//vp:roots ./storage ./tsdb/chunkenc ./tsdb/chunks ./tsdb/tombstones ./tsdb/index ./model/labels ./model/histogram ./model/value
//vp:bounds read path of out-of-order head data (OOOChunk.Insert, then OOOChunk.ToEncodedChunks, which re-encodes the sorted samples of the requested range into chunks by sample kind): 1..2 samples (thorough 3) inserted in arbitrary order with symbolic pairwise distinct timestamps in [0,64), kinds by case split (float, histogram with 1..2 buckets with growing or dropping counts), arbitrary [mint, maxt]; the chunks are time-ordered, carry the first/last timestamp of their contents, and decode to exactly the inserted samples inside the range, in time order, with their kind and values
//vp:assume values and start timestamps concrete; both float encodings and both histogram encodings by case split (useXOR2, useHistogramST)
package tsdb

import (
	"github.com/prometheus/prometheus/model/histogram"
	"github.com/prometheus/prometheus/tsdb/chunkenc"
)

func vpH_C01_ooo_chunk_to_encoded() {
	nHi := 2
	if vpThorough() {
		nHi = 3
	}
	n := vpShape("n", 1, nHi)
	oc := NewOOOChunk()
	type smp struct {
		t    int64
		f    float64
		h    *histogram.Histogram
		kind int
		st   int64
	}
	var in []smp
	for i := 0; i < n; i++ {
		t := vpInt64()
		vpAssume(vpAnd(t >= 0, t < 64))
		for _, p := range in {
			vpAssume(p.t != t)
		}
		kHi := 2
		if n >= 3 {
			kHi = 1 // three samples: floats and one-bucket histograms only
		}
		s := smp{t: t, kind: vpShape("kind", 0, kHi)}
		switch s.kind {
		case 0:
			s.f = float64(i) + 0.5
		default:
			base := int64(10 * (i + 1))
			if vpShape("drop", 0, 1) == 1 {
				base = 1
			}
			bs := make([]int64, s.kind)
			bs[0] = base
			s.h = &histogram.Histogram{Schema: 0, ZeroThreshold: 0.001, Count: uint64(base) * uint64(s.kind), Sum: float64(i),
				PositiveSpans: []histogram.Span{{Offset: 0, Length: uint32(s.kind)}}, PositiveBuckets: bs}
		}
		vpAssert(oc.Insert(int64(2*(i+1)), s.t, s.f, s.h, nil), "a sample at a new timestamp is inserted")
		s.st = int64(2 * (i + 1))
		in = append(in, s)
	}
	mint, maxt := vpInt64(), vpInt64()
	xor2 := vpShape("useXOR2", 0, 1) == 1
	histST := vpShape("useHistogramST", 0, 1) == 1
	chks, err := oc.ToEncodedChunks(mint, maxt, xor2, histST)
	vpAssert(err == nil, "no error")
	// expected: the inserted samples inside [mint, maxt], in time order (selection sort over <=3 items with symbolic keys)
	used := make([]bool, n)
	var want []smp
	for range in {
		best := -1
		for j := range in {
			if used[j] {
				continue
			}
			if best < 0 || in[j].t < in[best].t {
				best = j
			}
		}
		used[best] = true
		if in[best].t >= mint && in[best].t <= maxt {
			want = append(want, in[best])
		}
	}
	k := 0
	prevMax := int64(-1)
	for _, mc := range chks {
		vpAssert(mc.minTime > prevMax, "chunks time-ordered")
		it := mc.chunk.Iterator(nil)
		first := true
		var lastT int64
		cnt := 0
		for typ := it.Next(); typ != chunkenc.ValNone; typ = it.Next() {
			vpAssert(k < len(want), "no sample outside the range, none invented")
			if k >= len(want) {
				return
			}
			t := it.AtT()
			if first {
				vpAssert(t == mc.minTime, "chunk minTime is its first sample")
				first = false
			}
			lastT = t
			w := want[k]
			vpObserve("t", t)
			vpAssert(t == w.t, "samples in time order")
			wantST := int64(0)
			if (w.h == nil && xor2) || (w.h != nil && histST) {
				wantST = w.st
			}
			vpAssert(it.AtST() == wantST, "start timestamp kept by the encodings that can store it")
			if w.h == nil {
				vpAssert(typ == chunkenc.ValFloat, "sample kind")
				if typ == chunkenc.ValFloat {
					_, v := it.At()
					vpAssert(v == w.f, "float value")
				}
			} else {
				vpAssert(typ == chunkenc.ValHistogram, "sample kind")
				if typ == chunkenc.ValHistogram {
					_, h := it.AtHistogram(nil)
					vpAssert(h.Count == w.h.Count && h.Sum == w.h.Sum && len(h.PositiveBuckets) >= len(w.h.PositiveBuckets) && h.PositiveBuckets[0] == w.h.PositiveBuckets[0], "histogram count, sum and first bucket")
				}
			}
			k++
			cnt++
		}
		vpAssert(it.Err() == nil, "chunk decodes")
		vpAssert(cnt > 0 && lastT == mc.maxTime, "chunk maxTime is its last sample")
		prevMax = mc.maxTime
	}
	vpObserve("samples", k)
	vpAssert(k == len(want), "every inserted sample inside the range is returned")
	vpReach("end")
}
