//vp:property C20
//vp:pkg ./tsdb/tombstones
//vp:roots ./storage
//vp:bounds in-memory tombstones of one series (MemTombstones.AddInterval / Get / TruncateBefore) and the chunk-skipping test (Interval.IsSubrange, InBounds): canonical pre-state of k<=3 intervals, arbitrary added interval, arbitrary truncation time and arbitrary probe instant / probe range, all bounds full int64
//vp:assume the stored intervals are canonical (the Add step harness shows that Add keeps them so)
package tombstones

func vpXCanonState(k int) Intervals {
	in := make(Intervals, k)
	for i := range in {
		in[i] = Interval{Mint: vpInt64(), Maxt: vpInt64()}
	}
	vpAssume(vpXCanon(in))
	return in
}

// Adding an interval deletes exactly the points it covers on top of what was deleted; truncation forgets
// only intervals that end before the truncation time and never changes what is deleted at or after it.
func vpH_C20_memtombstones_add_truncate() {
	k := vpShape("k", 0, 3)
	pre := vpXCanonState(k)
	mt := NewMemTombstones()
	mt.intvlGroups[7] = append(Intervals(nil), pre...)
	n := Interval{Mint: vpInt64(), Maxt: vpInt64()}
	vpAssume(n.Mint <= n.Maxt)
	mt.AddInterval(7, n)
	got, err := mt.Get(7)
	vpAssert(err == nil, "no error")
	t := vpInt64() // probe instant
	vpAssert(vpXIn(got, t) == vpOr(vpXIn(pre, t), vpAnd(n.Mint <= t, t <= n.Maxt)), "after a delete exactly the old and the newly covered instants are deleted")
	vpAssert(vpXCanon(got), "stored intervals stay sorted, disjoint and non-adjacent")
	before := vpInt64()
	mt.TruncateBefore(before)
	after, _ := mt.Get(7)
	vpObserve("n", len(after))
	vpAssert(vpImplies(t >= before, vpXIn(after, t) == vpXIn(got, t)), "truncation does not change what is deleted at or after the truncation time")
	for _, iv := range after {
		vpAssert(iv.Maxt >= before, "only intervals reaching the truncation time are kept")
		vpAssert(vpXIn(got, iv.Mint) && vpXIn(got, iv.Maxt), "kept intervals are stored ones")
	}
	other, _ := mt.Get(8)
	vpAssert(len(other) == 0, "other series are untouched")
	vpReach("end")
}

// A chunk is skipped (IsSubrange) only if every instant of it is deleted; for canonical intervals the
// test is also complete.
func vpH_C20_issubrange() {
	k := vpShape("k", 0, 3)
	ivs := vpXCanonState(k)
	tr := Interval{Mint: vpInt64(), Maxt: vpInt64()}
	vpAssume(tr.Mint <= tr.Maxt)
	got := tr.IsSubrange(ivs)
	vpObserve("sub", got)
	t := vpInt64()
	vpAssert(vpImplies(vpAnd(got, vpAnd(tr.Mint <= t, t <= tr.Maxt)), vpXIn(ivs, t)), "a range reported as fully deleted has every instant deleted")
	// completeness: both ends deleted and no gap between them means inside one interval (canonical list)
	inside := false
	for _, iv := range ivs {
		inside = vpOr(inside, vpAnd(iv.Mint <= tr.Mint, tr.Maxt <= iv.Maxt))
	}
	vpAssert(got == inside, "fully deleted exactly when the range lies inside one stored interval")
	vpReach("end")
}
