//vp:property C20
//vp:pkg ./tsdb/tombstones
//vp:bounds Intervals.Add inductive step: arbitrary canonical pre-state of k<=4 intervals (quick k<=3), arbitrary new interval; all bounds full int64 incl. MinInt64/MaxInt64
//vp:assume pre-state of Intervals.Add is canonical: each Mint<=Maxt, sorted, non-overlapping, non-adjacent (what Add itself maintains from the empty list)
package tombstones

func vpXCanon(in Intervals) bool {
	ok := true
	for i := range in {
		ok = vpAnd(ok, in[i].Mint <= in[i].Maxt)
		if i > 0 {
			ok = vpAnd(ok, vpAnd(in[i-1].Maxt < in[i].Mint, in[i-1].Maxt+1 < in[i].Mint))
		}
	}
	return ok
}

func vpXIn(in Intervals, t int64) bool {
	r := false
	for _, iv := range in {
		r = vpOr(r, vpAnd(iv.Mint <= t, t <= iv.Maxt))
	}
	return r
}

// Inductive step of "deleted intervals are kept sorted, non-overlapping, non-adjacent, covering exactly the union".
func vpH_C20_IntervalsAdd_step() {
	hi := 3
	if vpThorough() {
		hi = 4
	}
	k := vpShape("k", 0, hi)
	in := make(Intervals, k)
	for i := range in {
		in[i].Mint, in[i].Maxt = vpInt64(), vpInt64()
	}
	vpAssume(vpXCanon(in))
	n := Interval{Mint: vpInt64(), Maxt: vpInt64()}
	vpAssume(n.Mint <= n.Maxt)
	t := vpInt64() // skolem point for "same point set"
	before := vpOr(vpXIn(in, t), vpAnd(n.Mint <= t, t <= n.Maxt))
	out := in.Add(n)
	vpObserve("len", len(out))
	for i := range out {
		vpObserve("mint", out[i].Mint)
		vpObserve("maxt", out[i].Maxt)
	}
	vpAssert(vpXCanon(out), "canonical")
	vpAssert(vpXIn(out, t) == before, "covers exactly the union")
	vpReach("end")
}
