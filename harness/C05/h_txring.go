//vp:property C05
//vp:pkg ./tsdb
//vp:bounds transaction ring step (txRing.add incl. growth by doubling, txRing.cleanupAppendIDsBelow, txRing.iterator): from an arbitrary ring state - capacity 0, 4 or 8, any first position, any fill 0..capacity, arbitrary 64-bit IDs in the slots - one add or one cleanup; the logical sequence read through the iterator afterwards is the old sequence plus the new ID at the end / the old sequence minus its longest prefix of IDs below the bound, all IDs bit for bit
//vp:assume inductive step: the pre-state is any value of the txRing representation (first < capacity, count <= capacity); capacities beyond 8 not explored
package tsdb

func vpXRingSeq(r *txRing) []uint64 {
	out := make([]uint64, 0, r.txIDCount)
	if r.txIDCount == 0 {
		return out
	}
	it := r.iterator()
	for i := uint32(0); i < r.txIDCount; i++ {
		out = append(out, it.At())
		it.Next()
	}
	return out
}

func vpXRingPre() (*txRing, []uint64) {
	capa := []int{0, 4, 8}[vpShape("capacity", 0, 2)]
	r := newTxRing(capa)
	for i := range r.txIDs {
		r.txIDs[i] = vpUint64()
	}
	if capa > 0 {
		r.txIDFirst = uint32(vpShape("first", 0, capa-1))
		r.txIDCount = uint32(vpShape("count", 0, capa))
	}
	return r, vpXRingSeq(r)
}

func vpH_C05_txring_add() {
	r, before := vpXRingPre()
	id := vpUint64()
	r.add(id)
	after := vpXRingSeq(r)
	vpObserve("len", len(after))
	vpAssert(len(after) == len(before)+1, "one more ID in the ring")
	if len(after) != len(before)+1 {
		return
	}
	for i := range before {
		vpAssert(after[i] == before[i], "earlier IDs keep their value and order (growth included)")
	}
	vpAssert(after[len(before)] == id, "the new ID is the newest entry")
	vpAssert(int(r.txIDFirst) < len(r.txIDs) && int(r.txIDCount) <= len(r.txIDs), "representation invariant")
	vpReach("added")
}

func vpH_C05_txring_cleanup() {
	r, before := vpXRingPre()
	bound := vpUint64()
	r.cleanupAppendIDsBelow(bound)
	after := vpXRingSeq(r)
	vpObserve("len", len(after))
	// reference: drop the longest prefix of IDs below the bound
	k := 0
	for k < len(before) && before[k] < bound {
		k++
	}
	vpAssert(len(after) == len(before)-k, "exactly the leading IDs below the bound are dropped")
	if len(after) != len(before)-k {
		return
	}
	for i := range after {
		vpAssert(after[i] == before[k+i], "remaining IDs keep their value and order")
	}
	vpAssert(len(r.txIDs) == 0 || (int(r.txIDFirst) < len(r.txIDs) && int(r.txIDCount) <= len(r.txIDs)), "representation invariant")
	vpReach("cleaned")
}
