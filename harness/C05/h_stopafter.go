//vp:property C05
//vp:pkg ./tsdb
//vp:roots ./tsdb/chunkenc ./tsdb/chunks
//vp:bounds visibility rule (memSeries.iterator stopAfter computation over m-mapped and head chunks, txRing.iterator): 0..2 m-mapped chunks and 0..2 head chunks of 1..2 samples each, the transaction ring covering the last r samples (every r) with arbitrary non-decreasing append IDs, arbitrary isolation state (maxAppendID any uint64, 0..2 incomplete append IDs), every chunk of the series
//vp:assume append IDs recorded in the ring are non-decreasing in append order; harness chunks only count samples
package tsdb

import (
	"github.com/prometheus/prometheus/tsdb/chunkenc"
	"github.com/prometheus/prometheus/tsdb/chunks"
)

type vpXCountChunk struct {
	chunkenc.Chunk
	n int
}

type vpXFullIt struct{ chunkenc.Iterator }

func (c vpXCountChunk) NumSamples() int                              { return c.n }
func (c vpXCountChunk) Iterator(chunkenc.Iterator) chunkenc.Iterator { return vpXFullIt{} }

// An iterator over a chunk created under an isolation state returns exactly the leading samples
// not preceded (in append order) by a sample of an append that is invisible to that state.
func vpH_C05_stopAfter_step() {
	s := &memSeries{}
	var counts []int
	nm := vpShape("mmapped", 0, 2)
	for i := 0; i < nm; i++ {
		c := vpShape("cnt", 1, 2)
		counts = append(counts, c)
		s.mmappedChunks = append(s.mmappedChunks, &mmappedChunk{numSamples: uint16(c)})
	}
	nh := vpShape("head", 0, 2)
	for i := 0; i < nh; i++ {
		c := vpShape("cnt", 1, 2)
		counts = append(counts, c)
		s.headChunks = &memChunk{chunk: vpXCountChunk{n: c}, prev: s.headChunks}
	}
	s.headChunkCount.Store(uint32(nh))
	if len(counts) == 0 {
		return
	}
	total := 0
	for _, c := range counts {
		total += c
	}
	s.firstChunkID = chunks.HeadChunkID(vpShape("first", 0, 1) * 3)
	r := vpShape("ring", 0, total)
	s.txs = newTxRing(4)
	ids := make([]uint64, r)
	for i := range ids {
		ids[i] = vpUint64()
		if i > 0 {
			vpAssume(ids[i-1] <= ids[i])
		}
		s.txs.add(ids[i])
	}
	iso := &isolationState{maxAppendID: vpUint64(), incompleteAppends: map[uint64]struct{}{}, isolation: &isolation{}}
	ninc := vpShape("incomplete", 0, 2)
	inc := make([]uint64, ninc)
	for k := range inc {
		inc[k] = vpUint64()
		iso.incompleteAppends[inc[k]] = struct{}{}
	}
	ci := vpShape("chunk", 0, len(counts)-1)
	it := s.iterator(s.firstChunkID+chunks.HeadChunkID(ci), vpXCountChunk{n: counts[ci]}, iso, nil)

	// reference, from the property: index (in the series) of the first invisible sample among those the ring covers
	firstInv := total
	for i := r - 1; i >= 0; i-- {
		invisible := ids[i] > iso.maxAppendID
		for _, x := range inc {
			invisible = vpOr(invisible, ids[i] == x)
		}
		firstInv = vpIte(invisible, total-r+i, firstInv)
	}
	start := 0
	for i := 0; i < ci; i++ {
		start += counts[i]
	}
	want := firstInv - start
	want = vpIte(want < 0, 0, want)
	want = vpIte(want > counts[ci], counts[ci], want)
	got := -1
	switch x := it.(type) {
	case *stopIterator:
		got = x.stopAfter
	case vpXFullIt:
		got = counts[ci]
	default:
		got = 0
	}
	vpObserve("got", got)
	vpAssert(got == want, "readers see exactly the samples of appends visible to their isolation state")
	vpReach("end")
}
