//vp:property C05
//vp:pkg ./tsdb
//vp:bounds the isolation bookkeeping object over every history of 5 operations drawn from {open an appender, close the oldest / the newest open appender, open a reader, close the oldest / the newest open reader} (case split over histories; sequential: the real code runs these under its mutexes): after every step the low watermark returned by isolation.lowWatermark / newAppendID is the smallest watermark any open reader captured, or without readers the lowest open append ID (the last issued ID if none is open); every reader state captures the last issued ID, exactly the set of open appends, and the lowest of them
//vp:assume sequential histories; IDs start at 0 (the object's own counter); no symbolic scalar - the case split over histories is the whole input space of this harness
package tsdb

func vpH_C05_isolation_history() {
	iso := newIsolation(false)
	type reader struct {
		st  *isolationState
		lw  uint64
		max uint64
		inc []uint64
	}
	var openApps []uint64
	var readers []reader
	last := uint64(0)
	lowestOpen := func() uint64 {
		if len(openApps) == 0 {
			return last
		}
		return openApps[0]
	}
	for step := 0; step < 5; step++ {
		switch vpShape("op", 0, 5) {
		case 0:
			id, lw := iso.newAppendID(0)
			last++
			vpAssert(id == last, "append IDs are issued in sequence")
			openApps = append(openApps, id)
			want := lowestOpen()
			for _, r := range readers {
				if r.lw < want {
					want = r.lw
				}
			}
			if len(readers) > 0 {
				want = readers[0].lw
				for _, r := range readers {
					if r.lw < want {
						want = r.lw
					}
				}
			}
			vpAssert(lw == want, "watermark handed to a new appender")
		case 1:
			if len(openApps) > 0 {
				iso.closeAppend(openApps[0])
				openApps = openApps[1:]
			}
		case 2:
			if len(openApps) > 0 {
				iso.closeAppend(openApps[len(openApps)-1])
				openApps = openApps[:len(openApps)-1]
			}
		case 3:
			st := iso.State(0, 10)
			r := reader{st: st, lw: lowestOpen(), max: last, inc: append([]uint64(nil), openApps...)}
			vpAssert(st.maxAppendID == r.max, "reader: newest append ID it may see")
			vpAssert(st.lowWatermark == r.lw, "reader: lowest open append (or the last ID)")
			vpAssert(len(st.incompleteAppends) == len(r.inc), "reader: exactly the open appends are incomplete")
			for _, id := range r.inc {
				_, ok := st.incompleteAppends[id]
				vpAssert(ok, "reader: exactly the open appends are incomplete")
			}
			readers = append(readers, r)
		case 4:
			if len(readers) > 0 {
				readers[0].st.Close()
				readers = readers[1:]
			}
		case 5:
			if len(readers) > 0 {
				readers[len(readers)-1].st.Close()
				readers = readers[:len(readers)-1]
			}
		}
		want := lowestOpen()
		if len(readers) > 0 {
			want = readers[0].lw
			for _, r := range readers {
				if r.lw < want {
					want = r.lw
				}
			}
		}
		got := iso.lowWatermark()
		vpObserve("lw", got)
		vpAssert(got == want, "low watermark = smallest watermark of an open reader, else the lowest open append ID")
		vpAssert(iso.lastAppendID() == last, "last issued ID")
	}
	vpReach("end")
}
