//vp:property C30
//vp:pkg ./promql
//vp:roots ./promql/parser ./model/histogram ./model/value ./util/annotations
//vp:bounds resets() and changes() (funcResets, funcChanges, pickFirstSampleIndices, isStartTimestampReset) on one series of <=3 float samples (thorough 4) with arbitrary float64 values (NaN payloads, signed zeros, infinities; compared, never computed with), strictly increasing timestamps and optional arbitrary start timestamps; isStartTimestampReset against its documented truth table for all int64 inputs
//vp:assume a range vector of one series has strictly increasing timestamps; float samples only (histogram timestamps disjoint from float timestamps is then vacuous)
package promql

import (
	"math"
	"time"

	"github.com/prometheus/prometheus/promql/parser"
)

// documented start-timestamp reset rule (written from the function's documentation)
func vpXSTReset(prevST, prevT, curST, curT int64) bool {
	if curST == 0 || curST >= curT {
		return false
	}
	if curST < prevT {
		return false
	}
	if curST > prevT {
		return true
	}
	if prevST > prevT {
		return false
	}
	return prevST != 0 && prevST != prevT
}

func vpXRange() (Matrix, []FPoint, []int64, bool, *EvalNodeHelper, parser.Expressions) {
	hi := 3
	if vpThorough() {
		hi = 4
	}
	n := vpShape("n", 1, hi)
	useST := vpShape("st", 0, 1) == 1
	fs := make([]FPoint, n)
	sts := make([]int64, n)
	for i := range fs {
		fs[i] = FPoint{T: vpInt64(), F: vpFloat64()}
		vpAssume(vpAnd(fs[i].T >= -(1<<62), fs[i].T <= 1<<62))
		if i > 0 {
			vpAssume(fs[i-1].T < fs[i].T)
		}
		if useST {
			sts[i] = vpInt64()
		}
	}
	enh := &EvalNodeHelper{Ts: fs[n-1].T}
	if useST {
		enh.StartTimestamps = &StartTimestamps{Floats: sts}
	}
	args := parser.Expressions{&parser.MatrixSelector{VectorSelector: &parser.VectorSelector{}, Range: time.Minute}}
	return Matrix{Series{Floats: fs}}, fs, sts, useST, enh, args
}

func vpH_C30_resets() {
	mat, fs, sts, useST, enh, args := vpXRange()
	out, _ := funcResets(nil, mat, args, enh)
	want := 0
	for i := 1; i < len(fs); i++ {
		stReset := false
		if useST {
			stReset = vpXSTReset(sts[i-1], fs[i-1].T, sts[i], fs[i].T)
		}
		if fs[i].F < fs[i-1].F || stReset {
			want++
		}
	}
	vpAssert(len(out) == 1, "one result sample")
	if len(out) == 1 {
		vpObserve("resets", out[0].F)
		vpAssert(math.Float64bits(out[0].F) == math.Float64bits(float64(want)), "resets counts the decreases and start-timestamp resets between consecutive samples")
	}
	vpReach("end")
}

func vpH_C30_changes() {
	mat, fs, _, _, enh, args := vpXRange()
	out, _ := funcChanges(nil, mat, args, enh)
	want := 0
	for i := 1; i < len(fs); i++ {
		a, b := fs[i-1].F, fs[i].F
		if a != b && !(math.IsNaN(a) && math.IsNaN(b)) {
			want++
		}
	}
	vpAssert(len(out) == 1, "one result sample")
	if len(out) == 1 {
		vpObserve("changes", out[0].F)
		vpAssert(math.Float64bits(out[0].F) == math.Float64bits(float64(want)), "changes counts the value changes between consecutive samples (NaN equals NaN)")
	}
	vpReach("end")
}

func vpH_C30_stReset_table() {
	a, b, c, d := vpInt64(), vpInt64(), vpInt64(), vpInt64()
	got := isStartTimestampReset(a, b, c, d)
	vpObserve("got", got)
	vpAssert(got == vpXSTReset(a, b, c, d), "start-timestamp reset rule")
	vpReach("end")
}
