//vp:property C10
//vp:pkg ./tsdb/chunkenc
//vp:roots ./model/value
//vp:budget paths=3000000 wall_s=900
//vp:concretize (*github.com/prometheus/prometheus/tsdb/chunkenc.bstream).writeBits:nbits (*github.com/prometheus/prometheus/tsdb/chunkenc.bstream).writeBitsFast:nbits (*github.com/prometheus/prometheus/tsdb/chunkenc.bstreamReader).readBits:nbits (*github.com/prometheus/prometheus/tsdb/chunkenc.bstreamReader).readBitsFast:nbits (*github.com/prometheus/prometheus/tsdb/chunkenc.bstreamReader).loadNextBuffer:nbits
//vp:bounds bounded from empty through the public API (NewXORChunk/NewXOR2Chunk, Appender, Append, Iterator): profiles of N appends of (st, t, v) with strictly increasing t in [-2^62, 2^62], float64 values as arbitrary bit patterns, arbitrary st (XOR2)
//vp:bounds quick: A = 2 samples, first t in [-64,64), second sample arbitrary; B = 3 samples, first t in [0,64), first delta in [1,64), v1==v0 (so the third sample meets every delta-of-delta class and every value class with an empty window), third sample arbitrary
//vp:bounds thorough adds: C = 2 arbitrary samples; D = 3 samples, first t in [0,64), first delta in [1,64), v1 arbitrary (third sample meets the reuse-window class); E = 3 samples, first t in [0,64), first delta arbitrary, v1==v0
//vp:bounds XOR2 quick: profiles A and B with all start timestamps 0, plus S2 = 2 samples with pinned t/v and arbitrary start timestamps; thorough adds C, D, E (st=0), A and B with arbitrary start timestamps, and S3 = 3 samples with pinned t/v and arbitrary start timestamps
//vp:bounds resume: 2 samples (first t in [0,64), delta in [1,64), st=0), reload with FromData, third sample arbitrary; second value = first (quick), or first=1.0 and second=staleness marker (quick), or both arbitrary (thorough)
//vp:bounds seek: 3 samples with pinned timestamps/values, the iterator advanced 0..2 times, then Seek(x) for every x, then Next
//vp:assume timestamps strictly increasing and within +-2^62 (the range the property states)
package chunkenc

import "math"

// vpXProfile returns the number of samples and applies the profile's pinning assumptions.
func vpXProfile(ts []int64, vs []float64, profile int) int {
	small := func(lo, hi int64, x int64) { vpAssume(vpAnd(x >= lo, x < hi)) }
	switch profile {
	case 0: // A
		small(-64, 64, ts[0])
		return 2
	case 1: // B
		small(0, 64, ts[0])
		small(1, 64, ts[1]-ts[0])
		vpAssume(math.Float64bits(vs[0]) == math.Float64bits(vs[1]))
		return 3
	case 2: // C
		return 2
	case 3: // D
		small(0, 64, ts[0])
		small(1, 64, ts[1]-ts[0])
		return 3
	case 4: // E
		small(0, 64, ts[0])
		vpAssume(math.Float64bits(vs[0]) == math.Float64bits(vs[1]))
		return 3
	case 5: // S2: timestamps and values pinned, start timestamps free (XOR2)
		small(0, 64, ts[0])
		small(1, 64, ts[1]-ts[0])
		vpAssume(math.Float64bits(vs[0]) == math.Float64bits(vs[1]))
		return 2
	default: // S3
		small(0, 64, ts[0])
		small(1, 64, ts[1]-ts[0])
		small(1, 64, ts[2]-ts[1])
		vpAssume(math.Float64bits(vs[0]) == math.Float64bits(vs[1]))
		vpAssume(math.Float64bits(vs[1]) == math.Float64bits(vs[2]))
		return 3
	}
}

// XOR: profiles A,B quick; A..E thorough. XOR2: (A,B with st=0, S2) quick; (A..E with st=0, A,B with free st, S2, S3) thorough.
func vpXRoundTrip(c Chunk, withST bool) {
	var profile int
	stFree := false
	if !withST {
		hi := 1
		if vpThorough() {
			hi = 4
		}
		profile = vpShape("profile", 0, hi)
	} else {
		hi := 2
		if vpThorough() {
			hi = 8
		}
		switch vpShape("profile2", 0, hi) {
		case 0:
			profile = 0
		case 1:
			profile = 1
		case 2:
			profile, stFree = 5, true
		case 3:
			profile = 2
		case 4:
			profile = 3
		case 5:
			profile = 4
		case 6:
			profile, stFree = 0, true
		case 7:
			profile, stFree = 1, true
		default:
			profile, stFree = 6, true
		}
	}
	st, ts, vs := make([]int64, 3), make([]int64, 3), make([]float64, 3)
	for i := 0; i < 3; i++ {
		st[i], ts[i], vs[i] = vpInt64(), vpInt64(), vpFloat64()
		vpAssume(vpAnd(ts[i] >= -(1<<62), ts[i] <= 1<<62))
		if i > 0 {
			vpAssume(ts[i-1] < ts[i])
		}
		if withST && !stFree {
			vpAssume(st[i] == 0)
		}
	}
	n := vpXProfile(ts, vs, profile)
	app, err := c.Appender()
	if err != nil {
		panic(err)
	}
	for i := 0; i < n; i++ {
		app.Append(st[i], ts[i], vs[i])
	}
	vpAssert(c.NumSamples() == n, "NumSamples")
	it := c.Iterator(nil)
	for i := 0; i < n; i++ {
		vt := it.Next()
		vpAssert(vt == ValFloat, "Next returns a float sample")
		if vt != ValFloat {
			return
		}
		t, v := it.At()
		vpObserve("t", t)
		vpObserve("v", v)
		vpAssert(t == ts[i], "timestamp returned as appended")
		vpAssert(it.AtT() == ts[i], "AtT")
		vpAssert(math.Float64bits(v) == math.Float64bits(vs[i]), "value returned bit for bit")
		if withST {
			vpObserve("st", it.AtST())
			vpAssert(it.AtST() == st[i], "start timestamp returned as appended")
		}
	}
	vpAssert(it.Next() == ValNone, "iterator ends after the last sample")
	vpAssert(it.Err() == nil, "no error")
	vpReach("end")
}

func vpH_C10_xor_bounded() { vpXRoundTrip(NewXORChunk(), false) }

func vpH_C10_xor2_bounded() { vpXRoundTrip(NewXOR2Chunk(), true) }

// Appending resumes on a chunk reloaded from its bytes: two samples, reload with FromData, append a
// third, iterate. The second value is pinned to {same as first, staleness marker} in quick and free in thorough.
func vpXResume(enc Encoding, withST bool) {
	hi := 1
	if vpThorough() {
		hi = 2
	}
	mode := vpShape("v1mode", 0, hi)
	st, ts, vs := make([]int64, 3), make([]int64, 3), make([]float64, 3)
	for i := 0; i < 3; i++ {
		st[i], ts[i], vs[i] = vpInt64(), vpInt64(), vpFloat64()
		if i > 0 {
			vpAssume(ts[i-1] < ts[i])
		}
		if withST {
			vpAssume(st[i] == 0)
		}
	}
	vpAssume(vpAnd(ts[0] >= 0, ts[0] < 64))
	vpAssume(vpAnd(ts[1]-ts[0] >= 1, ts[1]-ts[0] < 64))
	vpAssume(ts[2] <= 1<<62)
	switch mode {
	case 0:
		vpAssume(math.Float64bits(vs[1]) == math.Float64bits(vs[0]))
	case 1:
		vpAssume(math.Float64bits(vs[0]) == 0x3ff0000000000000) // 1.0
		vpAssume(math.Float64bits(vs[1]) == 0x7ff0000000000002) // value.StaleNaN
	}
	c, err := NewEmptyChunk(enc)
	if err != nil {
		panic(err)
	}
	app, err := c.Appender()
	if err != nil {
		panic(err)
	}
	app.Append(st[0], ts[0], vs[0])
	app.Append(st[1], ts[1], vs[1])
	raw := append([]byte(nil), c.Bytes()...)
	c2, err := FromData(enc, raw)
	vpAssert(err == nil, "FromData")
	if err != nil {
		return
	}
	app2, err := c2.Appender()
	vpAssert(err == nil, "Appender on reloaded chunk")
	if err != nil {
		return
	}
	app2.Append(st[2], ts[2], vs[2])
	vpAssert(c2.NumSamples() == 3, "NumSamples")
	it := c2.Iterator(nil)
	for i := 0; i < 3; i++ {
		vt := it.Next()
		vpAssert(vt == ValFloat, "Next returns a float sample")
		if vt != ValFloat {
			return
		}
		t, v := it.At()
		vpObserve("t", t)
		vpObserve("v", v)
		vpAssert(t == ts[i], "timestamp returned as appended")
		vpAssert(math.Float64bits(v) == math.Float64bits(vs[i]), "value returned bit for bit")
	}
	vpAssert(it.Next() == ValNone, "iterator ends after the last sample")
	vpAssert(it.Err() == nil, "no error")
	vpReach("end")
}

func vpH_C10_xor_resume()  { vpXResume(EncXOR, false) }
func vpH_C10_xor2_resume() { vpXResume(EncXOR2, true) }

// Seek returns the first sample at or after the requested time (and the following Next continues from there).
func vpXSeek(c Chunk, withST bool) {
	st, ts, vs := make([]int64, 3), make([]int64, 3), make([]float64, 3)
	for i := 0; i < 3; i++ {
		st[i], ts[i], vs[i] = 0, vpInt64(), vpFloat64()
		if i > 0 {
			vpAssume(vpAnd(ts[i]-ts[i-1] >= 1, ts[i]-ts[i-1] < 64))
			vpAssume(math.Float64bits(vs[i]) == math.Float64bits(vs[0]))
		}
	}
	vpAssume(vpAnd(ts[0] >= 0, ts[0] < 64))
	app, err := c.Appender()
	if err != nil {
		panic(err)
	}
	for i := 0; i < 3; i++ {
		app.Append(st[i], ts[i], vs[i])
	}
	it := c.Iterator(nil)
	pre := vpShape("nextsBefore", 0, 2) // position of the iterator before Seek
	for i := 0; i < pre; i++ {
		it.Next()
	}
	x := vpInt64()
	r := it.Seek(x)
	// expected index: stays at the current sample if it qualifies, else the first later sample with t >= x
	want := 3
	for i := 2; i >= 0; i-- {
		if i >= pre-1 && i >= 0 {
			if vpAnd(ts[i] >= x, true) {
				want = i
			}
		}
	}
	if pre > 0 && ts[pre-1] >= x {
		want = pre - 1
	}
	vpObserve("r", uint8(r))
	if want == 3 {
		vpAssert(r == ValNone, "ValNone when no sample is at or after the target")
		vpReach("none")
		return
	}
	vpAssert(r == ValFloat, "a sample is found")
	if r != ValFloat {
		return
	}
	t, v := it.At()
	vpObserve("t", t)
	vpAssert(t == ts[want], "Seek returns the first sample at or after the requested time")
	vpAssert(math.Float64bits(v) == math.Float64bits(vs[want]), "value at the sought sample")
	if want < 2 {
		vpAssert(it.Next() == ValFloat && it.AtT() == ts[want+1], "Next continues after the sought sample")
	} else {
		vpAssert(it.Next() == ValNone, "end after the last sample")
	}
	vpReach("found")
}

func vpH_C10_xor_seek()  { vpXSeek(NewXORChunk(), false) }
func vpH_C10_xor2_seek() { vpXSeek(NewXOR2Chunk(), true) }
