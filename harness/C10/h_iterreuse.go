//vp:property C10
//vp:pkg ./tsdb/chunkenc
//vp:roots ./model/histogram ./model/value
//vp:bounds iterator object reuse (Chunk.Iterator(it) with a previously used iterator, as queriers do for every chunk): for XOR and XOR2 float chunks, an iterator that consumed 0..3 samples of a first chunk (3 samples, start timestamps on XOR2) and is then handed to a second chunk (2 samples with other deltas and values) returns exactly what a fresh iterator returns; case split over encodings and the number of consumed samples, chunk contents concrete
package chunkenc

import "math"

func vpXFloatChunk(enc Encoding, samples [][3]float64) Chunk {
	c, err := NewEmptyChunk(enc)
	if err != nil {
		panic(err)
	}
	app, err := c.Appender()
	if err != nil {
		panic(err)
	}
	for _, s := range samples {
		app.Append(int64(s[0]), int64(s[1]), s[2])
	}
	return c
}

func vpH_C10_iterator_reuse() {
	enc := []Encoding{EncXOR, EncXOR2}[vpShape("enc", 0, 1)]
	st := 0.0
	if enc == EncXOR2 {
		st = 5
	}
	a := vpXFloatChunk(enc, [][3]float64{{st, 1000, 1.5}, {st, 1010, 1.5}, {st + 3, 1500, math.Float64frombits(0x7ff0000000000002)}})
	b := vpXFloatChunk(enc, [][3]float64{{0, 7, -2.25}, {0, 100007, 1e300}})
	it := a.Iterator(nil)
	consumed := vpShape("consumed", 0, 3)
	for i := 0; i < consumed; i++ {
		it.Next()
	}
	if vpShape("seekfirst", 0, 1) == 1 {
		it.Seek(1400)
	}
	re := b.Iterator(it)
	fresh := b.Iterator(nil)
	n := 0
	for {
		v1, v2 := re.Next(), fresh.Next()
		vpAssert(v1 == v2, "same value type as a fresh iterator")
		if v1 == ValNone || v2 == ValNone {
			break
		}
		t1, f1 := re.At()
		t2, f2 := fresh.At()
		vpObserve("t", t1)
		vpAssert(t1 == t2 && math.Float64bits(f1) == math.Float64bits(f2) && re.AtST() == fresh.AtST(), "same sample as a fresh iterator")
		n++
		if n > 4 {
			break
		}
	}
	vpAssert(n == 2 && re.Err() == nil, "both samples of the second chunk")
	vpReach("end")
}
