//vp:property C23
//vp:pkg ./tsdb
//vp:roots ./tsdb/record ./tsdb/encoding ./model/labels ./model/histogram ./tsdb/chunkenc ./tsdb/chunks ./tsdb/tombstones github.com/dennwc/varint
//vp:bounds chunk-snapshot series record codec (memSeries.encodeToSnapshotRecord / decodeSeriesFromChunkSnapshot with record.EncodeLabels/DecodeLabels, EncodeHistogram/DecodeHistogram, chunkenc.FromData): arbitrary series ref, head-chunk time range and last float value (bits); head chunk none / XOR / XOR2 / Histogram / FloatHistogram with 2 header bytes + 0..3 (thorough 0..8) arbitrary data bytes; a concrete 2-label set; last (float) histogram with small counts
//vp:assume necessary condition only: what the snapshot stores for a series is what is read back; the property itself compares two whole-process recoveries (files, Head.Init) and is not decided
package tsdb

import (
	"math"

	"github.com/prometheus/prometheus/model/histogram"
	"github.com/prometheus/prometheus/model/labels"
	"github.com/prometheus/prometheus/tsdb/chunkenc"
	"github.com/prometheus/prometheus/tsdb/chunks"
	"github.com/prometheus/prometheus/tsdb/record"
)

func vpH_C23_snapshot_series_codec() {
	lset := labels.FromStrings("__name__", "m", "job", "x")
	s := &memSeries{ref: chunks.HeadSeriesRef(vpUint64()), lset: lset}
	kind := vpShape("chunk", 0, 4) // 0 none, 1 XOR, 2 XOR2, 3 Histogram, 4 FloatHistogram
	var data []byte
	var enc chunkenc.Encoding
	if kind != 0 {
		enc = []chunkenc.Encoding{0, chunkenc.EncXOR, chunkenc.EncXOR2, chunkenc.EncHistogram, chunkenc.EncFloatHistogram}[kind]
		dbHi := 3
		if vpThorough() {
			dbHi = 8
		}
		n := 2 + vpShape("databytes", 0, dbHi)
		if enc == chunkenc.EncXOR2 {
			n += 1 // XOR2 chunks carry a third header byte
		}
		data = make([]byte, n)
		for i := range data {
			data[i] = vpByte()
		}
		chk, err := chunkenc.FromData(enc, append([]byte(nil), data...))
		if err != nil {
			panic(err)
		}
		s.headChunks = &memChunk{chunk: chk, minTime: vpInt64(), maxTime: vpInt64()}
		switch kind {
		case 1, 2:
			s.lastValue = vpFloat64()
		case 3:
			c := vpUint64()
			vpAssume(c < 64)
			s.lastHistogramValue = &histogram.Histogram{Count: c, Sum: vpFloat64()}
		case 4:
			s.lastFloatHistogramValue = &histogram.FloatHistogram{Count: vpFloat64(), Sum: vpFloat64()}
		}
	}
	rec := s.encodeToSnapshotRecord(nil)
	dec := record.NewDecoder(nil, nil)
	csr, err := decodeSeriesFromChunkSnapshot(&dec, rec)
	vpAssert(err == nil, "decodes without error")
	if err != nil {
		return
	}
	vpObserve("ref", uint64(csr.ref))
	vpAssert(csr.ref == s.ref, "series reference")
	vpAssert(labels.Equal(csr.lset, lset), "labels")
	if kind == 0 {
		vpAssert(csr.mc == nil, "no head chunk")
		vpReach("no chunk")
		return
	}
	vpAssert(csr.mc != nil, "head chunk restored")
	if csr.mc == nil {
		return
	}
	vpAssert(csr.mc.minTime == s.headChunks.minTime && csr.mc.maxTime == s.headChunks.maxTime, "head chunk time range")
	vpAssert(csr.mc.chunk.Encoding() == enc, "chunk encoding")
	got := csr.mc.chunk.Bytes()
	vpAssert(len(got) == len(data), "chunk byte count")
	if len(got) == len(data) {
		for i := range data {
			vpAssert(got[i] == data[i], "chunk bytes")
		}
	}
	switch kind {
	case 1, 2:
		vpAssert(math.Float64bits(csr.lastValue) == math.Float64bits(s.lastValue), "last value bit for bit")
	case 3:
		vpAssert(csr.lastHistogramValue != nil && csr.lastHistogramValue.Count == s.lastHistogramValue.Count && math.Float64bits(csr.lastHistogramValue.Sum) == math.Float64bits(s.lastHistogramValue.Sum), "last histogram")
	case 4:
		vpAssert(csr.lastFloatHistogramValue != nil && math.Float64bits(csr.lastFloatHistogramValue.Count) == math.Float64bits(s.lastFloatHistogramValue.Count) && math.Float64bits(csr.lastFloatHistogramValue.Sum) == math.Float64bits(s.lastFloatHistogramValue.Sum), "last float histogram")
	}
	vpReach("with chunk")
}
