//vp:property C54
//vp:pkg ./storage
//vp:roots ./model/labels ./tsdb/chunkenc ./tsdb/chunks ./util/annotations ./model/histogram
//vp:bounds fanoutAppenderV2.Append/Commit/Rollback (the V2 appender interface) with 1 primary and 2 secondary appenders whose Append, Commit and Rollback each fail or succeed according to symbolic Boolean fault flags (every fault schedule)
package storage

import (
	"log/slog"

	"github.com/prometheus/prometheus/model/histogram"
	"github.com/prometheus/prometheus/model/labels"
)

type vpXAppV2 struct {
	AppenderV2
	failAppend, failCommit, failRollback bool
	appended, committed, rolled          int
	order                                *[]int
	id                                   int
}

func (a *vpXAppV2) Append(ref SeriesRef, l labels.Labels, st, t int64, v float64, h *histogram.Histogram, fh *histogram.FloatHistogram, opts AOptions) (SeriesRef, error) {
	if a.failAppend {
		return 0, vpXErrAppend
	}
	a.appended++
	return 7, nil
}

func (a *vpXAppV2) Commit() error {
	*a.order = append(*a.order, a.id)
	if a.failCommit {
		return vpXErrCommit
	}
	a.committed++
	return nil
}

func (a *vpXAppV2) Rollback() error {
	a.rolled++
	if a.failRollback {
		return vpXErrRollback
	}
	return nil
}

func vpH_C54_fanout_v2_commit_faults() {
	var order []int
	mk := func(id int) *vpXAppV2 {
		return &vpXAppV2{failAppend: vpBool(), failCommit: vpBool(), failRollback: vpBool(), order: &order, id: id}
	}
	p, s1, s2 := mk(0), mk(1), mk(2)
	f := &fanoutAppenderV2{logger: slog.New(slog.DiscardHandler), primary: p, secondaries: []AppenderV2{s1, s2}}
	_, err := f.Append(0, labels.Labels{}, 0, 1, 1, nil, nil, AOptions{})
	// the primary is asked first; a secondary is only asked when everything before it accepted
	firstFault := p.failAppend || s1.failAppend || s2.failAppend
	vpAssert((err != nil) == firstFault, "append error reported iff some storage failed the append")
	if err != nil {
		vpAssert(vpImplies(p.failAppend, s1.appended == 0 && s2.appended == 0), "a sample the primary rejected is not forwarded to the secondaries")
		vpReach("append failed")
		return
	}
	vpAssert(p.appended == 1 && s1.appended == 1 && s2.appended == 1, "an accepted append reaches the primary and every secondary")
	if vpBool() {
		err := f.Rollback()
		vpAssert(p.rolled == 1 && s1.rolled == 1 && s2.rolled == 1, "rollback reaches every storage")
		vpAssert(p.committed+s1.committed+s2.committed == 0, "nothing committed on rollback")
		vpAssert((err != nil) == (p.failRollback || s1.failRollback || s2.failRollback), "rollback error reported")
		vpReach("rolled back")
		return
	}
	err = f.Commit()
	vpObserve("committed", p.committed+s1.committed*2+s2.committed*4)
	if p.failCommit {
		vpAssert(err != nil, "primary commit failure is reported")
		vpAssert(s1.committed == 0 && s2.committed == 0, "no secondary commits after the primary's commit failed")
		vpAssert(s1.rolled == 1 && s2.rolled == 1, "secondaries are rolled back after the primary's commit failed")
	} else {
		vpAssert(p.committed == 1, "primary committed")
		vpAssert(len(order) >= 1 && order[0] == 0, "primary commits first")
		vpAssert((err == nil) == (!s1.failCommit && !s2.failCommit), "commit succeeds iff every storage committed")
		if err == nil {
			vpAssert(s1.committed == 1 && s2.committed == 1, "a committed append reaches every secondary")
		}
	}
	vpAssert(p.committed <= 1 && s1.committed <= 1 && s2.committed <= 1, "at most one commit per storage")
	vpReach("committed or failed")
}
