//vp:property C54
//vp:pkg ./storage
//vp:bounds fanoutAppender.Append/Commit/Rollback with 1 primary and 2 secondary appenders whose Append, Commit and Rollback each fail or succeed according to symbolic Boolean fault flags (every fault schedule)
//vp:assume appenders are harness objects recording calls; the slog logger is a no-op stub in the engine
package storage

import (
	"errors"
	"log/slog"

	"github.com/prometheus/prometheus/model/labels"
)

var vpXErrAppend, vpXErrCommit, vpXErrRollback = errors.New("append fault"), errors.New("commit fault"), errors.New("rollback fault")

type vpXApp struct {
	Appender
	failAppend, failCommit, failRollback bool
	appended, committed, rolled       int
	order                              *[]int
	id                                 int
}

func (a *vpXApp) Append(ref SeriesRef, l labels.Labels, t int64, v float64) (SeriesRef, error) {
	if a.failAppend {
		return 0, vpXErrAppend
	}
	a.appended++
	return 7, nil
}

func (a *vpXApp) Commit() error {
	*a.order = append(*a.order, a.id)
	if a.failCommit {
		return vpXErrCommit
	}
	a.committed++
	return nil
}

func (a *vpXApp) Rollback() error {
	a.rolled++
	if a.failRollback {
		return vpXErrRollback
	}
	return nil
}

func vpH_C54_fanout_commit_faults() {
	var order []int
	mk := func(id int) *vpXApp {
		return &vpXApp{failAppend: vpBool(), failCommit: vpBool(), failRollback: vpBool(), order: &order, id: id}
	}
	p, s1, s2 := mk(0), mk(1), mk(2)
	f := &fanoutAppender{logger: slog.New(slog.DiscardHandler), primary: p, secondaries: []Appender{s1, s2}}
	_, err := f.Append(0, labels.Labels{}, 1, 1)
	anyAppendFault := p.failAppend || s1.failAppend || s2.failAppend
	vpAssert((err != nil) == anyAppendFault, "append error reported iff some storage failed the append")
	if err != nil {
		vpReach("append failed")
		return
	}
	vpAssert(p.appended == 1 && s1.appended == 1 && s2.appended == 1, "an accepted append reaches the primary and every secondary")
	if vpBool() {
		err := f.Rollback()
		vpAssert(p.rolled == 1 && s1.rolled == 1 && s2.rolled == 1, "rollback reaches every storage")
		vpAssert(p.committed+s1.committed+s2.committed == 0, "nothing committed on rollback")
		vpAssert((err != nil) == (p.failRollback || s1.failRollback || s2.failRollback), "rollback error reported")
		vpReach("rolled back")
		return
	}
	err = f.Commit()
	vpObserve("committed", p.committed+s1.committed*2+s2.committed*4)
	if p.failCommit {
		vpAssert(err != nil, "primary commit failure is reported")
		vpAssert(s1.committed == 0 && s2.committed == 0, "no secondary commits after the primary's commit failed")
		vpAssert(s1.rolled == 1 && s2.rolled == 1, "secondaries are rolled back after the primary's commit failed")
	} else {
		vpAssert(p.committed == 1, "primary committed")
		vpAssert(len(order) >= 1 && order[0] == 0, "primary commits first")
		vpAssert((err == nil) == (!s1.failCommit && !s2.failCommit), "commit succeeds iff every storage committed")
		if err == nil {
			vpAssert(s1.committed == 1 && s2.committed == 1, "a committed append reaches every secondary")
		}
	}
	vpAssert(p.committed <= 1 && s1.committed <= 1 && s2.committed <= 1, "at most one commit per storage")
	vpReach("committed or failed")
}
