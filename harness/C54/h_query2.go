//vp:property C54
//vp:pkg ./storage
//vp:roots ./model/labels ./tsdb/chunkenc ./tsdb/chunks ./util/annotations ./model/histogram
//vp:bounds query side, several Selects on one merged querier (as a binary expression does): 1 primary and 1 secondary; two Selects (series a, series b) are issued before either result is drained; the secondary's answer to each Select fails or not (symbolic), the drain order is symbolic. Also the chunk-querier path (NewMergeChunkQuerier) with 1 primary and 1 secondary whose Select fails or not
//vp:assume queriers are harness objects; sequential Select path of the real NewMergeQuerier / NewMergeChunkQuerier result (concurrentSelect switched off: goroutines are not modelled); a secondary fails at its first Next, as remote reads do
package storage

import (
	"context"

	"github.com/prometheus/prometheus/model/labels"
	"github.com/prometheus/prometheus/tsdb/chunks"
	"github.com/prometheus/prometheus/util/annotations"
)

type vpXQ2 struct {
	LabelQuerier
	src   float64
	fail  []bool
	calls int
}

func (q *vpXQ2) Select(_ context.Context, _ bool, _ *SelectHints, ms ...*labels.Matcher) SeriesSet {
	k := q.calls
	q.calls++
	if q.fail != nil && q.fail[k] {
		return ErrSeriesSet(vpXErrBoom)
	}
	name := ms[0].Value
	return &vpXListSet{ss: []Series{NewListSeries(labels.FromStrings("n", name), []chunks.Sample{fSample{t: int64(q.src), f: q.src}})}}
}
func (q *vpXQ2) Close() error { return nil }

// All-or-nothing per secondary across several Selects: if any of the secondary's answers failed, no
// result contains anything from that secondary and the failure is reported as a warning; the primary's
// data is always there.
func vpH_C54_query_multi_select() {
	prim := &vpXQ2{src: 1}
	sec := &vpXQ2{src: 2, fail: []bool{vpBool(), vpBool()}}
	mq := NewMergeQuerier([]Querier{prim}, []Querier{sec}, ChainedSeriesMerge)
	mq.(*querierAdapter).genericQuerier.(*mergeGenericQuerier).concurrentSelect = false
	sets := []SeriesSet{
		mq.Select(context.Background(), true, nil, labels.MustNewMatcher(labels.MatchEqual, "n", "a")),
		mq.Select(context.Background(), true, nil, labels.MustNewMatcher(labels.MatchEqual, "n", "b")),
	}
	order := []int{0, 1}
	if vpBool() {
		order = []int{1, 0}
	}
	anyFail := sec.fail[0] || sec.fail[1]
	warnings := 0
	for _, k := range order {
		ss := sets[k]
		nser, fromSec, fromPrim := 0, 0, 0
		for ss.Next() {
			nser++
			it := ss.At().Iterator(nil)
			for it.Next() != 0 {
				if it.AtT() == 2 {
					fromSec++
				} else {
					fromPrim++
				}
			}
			if nser > 3 {
				break
			}
		}
		vpAssert(ss.Err() == nil, "a failing secondary does not fail the query")
		warnings += len(ss.Warnings())
		vpObserve("fromSec", fromSec)
		vpAssert(nser == 1 && fromPrim == 1, "the primary's series is returned")
		if anyFail {
			vpAssert(fromSec == 0, "nothing from a secondary that failed on any of its Selects")
		} else {
			vpAssert(fromSec == 1, "a working secondary contributes its sample")
		}
	}
	vpAssert((warnings > 0) == anyFail, "the failure is reported as a warning")
	vpReach("end")
}

type vpXCQ struct {
	LabelQuerier
	src  int64
	fail bool
}

type vpXChunkSet struct {
	ss []ChunkSeries
	i  int
}

func (s *vpXChunkSet) Next() bool     { s.i++; return s.i <= len(s.ss) }
func (s *vpXChunkSet) At() ChunkSeries { return s.ss[s.i-1] }
func (s *vpXChunkSet) Err() error     { return nil }
func (s *vpXChunkSet) Warnings() annotations.Annotations { return nil }

func (q *vpXCQ) Select(context.Context, bool, *SelectHints, ...*labels.Matcher) ChunkSeriesSet {
	if q.fail {
		return ErrChunkSeriesSet(vpXErrBoom)
	}
	return &vpXChunkSet{ss: []ChunkSeries{NewListChunkSeriesFromSamples(labels.FromStrings("n", "a"), []chunks.Sample{fSample{t: q.src, f: 1}})}}
}
func (q *vpXCQ) Close() error { return nil }

// The chunk-querier fan-out treats secondaries as best effort too.
func vpH_C54_chunk_query_faults() {
	prim := &vpXCQ{src: 1, fail: vpBool()}
	sec := &vpXCQ{src: 2, fail: vpBool()}
	mq := NewMergeChunkQuerier([]ChunkQuerier{prim}, []ChunkQuerier{sec}, NewCompactingChunkSeriesMerger(ChainedSeriesMerge))
	mq.(*chunkQuerierAdapter).genericQuerier.(*mergeGenericQuerier).concurrentSelect = false
	ss := mq.Select(context.Background(), true, nil)
	nser, nchunks := 0, 0
	for ss.Next() {
		nser++
		it := ss.At().Iterator(nil)
		for it.Next() {
			nchunks++
		}
		if nser > 3 {
			break
		}
	}
	vpObserve("nser", nser)
	vpObserve("nchunks", nchunks)
	if prim.fail {
		vpAssert(ss.Err() != nil, "if the primary fails the query fails")
		vpReach("primary failed")
		return
	}
	vpAssert(ss.Err() == nil, "a failing secondary does not fail the chunk query")
	vpAssert((len(ss.Warnings()) > 0) == sec.fail, "a warning is reported iff the secondary failed")
	want := 2
	if sec.fail {
		want = 1
	}
	vpAssert(nser == 1 && nchunks == want, "chunks of the primary and of the working secondary, nothing from a failed one")
	vpReach("end")
}
