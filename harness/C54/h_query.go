//vp:property C54
//vp:pkg ./storage
//vp:roots ./model/labels ./tsdb/chunkenc ./tsdb/chunks ./util/annotations ./model/histogram
//vp:bounds query side (NewMergeQuerier -> mergeGenericQuerier.Select, secondaryQuerier all-or-nothing, lazyGenericSeriesSet, genericMergeSeriesSet, ChainedSeriesMerge): 1 primary and 2 secondary queriers, each holding any subset of two series {n="a", n="b"} (symbolic membership) with one sample at a querier-specific timestamp, each Select failing or not (symbolic fault flags)
//vp:assume queriers are harness objects; sequential Select (the concurrent fan-out used by fanout storage is not exercised)
package storage

import (
	"context"
	"errors"

	"github.com/prometheus/prometheus/model/labels"
	"github.com/prometheus/prometheus/tsdb/chunkenc"
	"github.com/prometheus/prometheus/tsdb/chunks"
	"github.com/prometheus/prometheus/util/annotations"
)

var vpXErrBoom = errors.New("boom")

type vpXListSet struct {
	ss []Series
	i  int
}

func (s *vpXListSet) Next() bool                        { s.i++; return s.i <= len(s.ss) }
func (s *vpXListSet) At() Series                        { return s.ss[s.i-1] }
func (s *vpXListSet) Err() error                        { return nil }
func (s *vpXListSet) Warnings() annotations.Annotations { return nil }

type vpXQ struct {
	LabelQuerier
	series  []Series
	failSel bool
}

func (q *vpXQ) Select(context.Context, bool, *SelectHints, ...*labels.Matcher) SeriesSet {
	if q.failSel {
		return ErrSeriesSet(vpXErrBoom)
	}
	return &vpXListSet{ss: q.series}
}
func (q *vpXQ) Close() error { return nil }

func vpH_C54_query_faults() {
	names := []string{"a", "b"}
	has := make([][]bool, 3) // [querier][series]
	qs := make([]*vpXQ, 3)
	for id := 0; id < 3; id++ {
		q := &vpXQ{failSel: vpBool()}
		has[id] = make([]bool, len(names))
		for k, n := range names {
			if vpBool() {
				has[id][k] = true
				q.series = append(q.series, NewListSeries(labels.FromStrings("n", n), []chunks.Sample{fSample{t: int64(id*10 + 1), f: float64(id)}}))
			}
		}
		qs[id] = q
	}
	// the real NewMergeQuerier for 1 primary + 2 secondaries, switched to its sequential Select path
	// (it would pick the goroutine fan-out, which the engine does not model)
	mq := NewMergeQuerier([]Querier{qs[0]}, []Querier{qs[1], qs[2]}, ChainedSeriesMerge)
	mq.(*querierAdapter).genericQuerier.(*mergeGenericQuerier).concurrentSelect = false
	ss := mq.Select(context.Background(), true, nil)
	var gotNames []string
	var gotTs [][]int64
	for ss.Next() {
		s := ss.At()
		gotNames = append(gotNames, s.Labels().Get("n"))
		var ts []int64
		it := s.Iterator(nil)
		for it.Next() != chunkenc.ValNone {
			ts = append(ts, it.AtT())
		}
		gotTs = append(gotTs, ts)
		if len(gotNames) > 4 {
			break
		}
	}
	vpObserve("nseries", len(gotNames))
	if qs[0].failSel {
		vpAssert(ss.Err() != nil, "if the primary fails the query fails")
		vpReach("primary failed")
		return
	}
	vpAssert(ss.Err() == nil, "a failing secondary does not fail the query")
	failed := qs[1].failSel || qs[2].failSel
	vpAssert((len(ss.Warnings()) > 0) == failed, "a warning is reported iff some secondary failed")
	// expected: per name, the timestamps of the primary and the non-failed secondaries that hold it
	gi := 0
	for k, n := range names {
		var want []int64
		for id := 0; id < 3; id++ {
			if has[id][k] && (id == 0 || !qs[id].failSel) {
				want = append(want, int64(id*10+1))
			}
		}
		if len(want) == 0 {
			continue
		}
		vpAssert(gi < len(gotNames) && gotNames[gi] == n, "merged series in label order, each label set once")
		if !(gi < len(gotNames) && gotNames[gi] == n) {
			return
		}
		vpAssert(len(gotTs[gi]) == len(want), "samples of the primary and of every working secondary, nothing from a failed one")
		if len(gotTs[gi]) == len(want) {
			for i := range want {
				vpAssert(gotTs[gi][i] == want[i], "merged samples in time order")
			}
		}
		gi++
	}
	vpAssert(gi == len(gotNames), "no other series")
	vpReach("end")
}
