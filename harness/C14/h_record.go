//vp:property C14
//vp:pkg ./tsdb/record
//vp:roots github.com/dennwc/varint ./tsdb/encoding ./model/histogram ./tsdb/tombstones ./tsdb/chunks
//vp:bounds varint lemmas: Encbuf.PutVarint64/PutUvarint64/PutBE64 followed by Decbuf.Varint64/Uvarint64/Be64 for every 64-bit value
//vp:bounds sample records V1: 2 samples (thorough 3), all refs/timestamps/values arbitrary; V2 (start timestamps): 2 samples (thorough 3) where one varint field at a time (the focus) is arbitrary and the others lie in [-64,64)
//vp:bounds V2 quick additionally runs 3 samples with all variable-length fields in [-64,64) to exercise the start-timestamp marker cases
//vp:bounds tombstone records: 1 stone (thorough 2), arbitrary refs and interval bounds; histogram / float histogram records V1 and V2: one histogram with one span and one bucket per side, one varint field at a time arbitrary (others in [-64,64)), floats arbitrary bit patterns; V1 custom-bucket split on 2 histograms
//vp:assume histograms passed to the encoder have a valid exponential schema (-4..8) or the custom-bucket schema (what Histogram.Validate enforces before a sample reaches the WAL)
//vp:assume "focus" pinning: every variable-length field is exercised over its full range, but only one at a time per record (positions of later fields shift with it)
package record

import (
	"math"

	"github.com/prometheus/prometheus/model/histogram"
	"github.com/prometheus/prometheus/storage"
	"github.com/prometheus/prometheus/tsdb/chunks"
	"github.com/prometheus/prometheus/tsdb/encoding"
	"github.com/prometheus/prometheus/tsdb/tombstones"
)

func vpXSmall(focus bool, x int64) {
	if !focus {
		vpAssume(vpAnd(x >= -64, x < 64))
	}
}

func vpXSmallU(focus bool, x uint64) {
	if !focus {
		vpAssume(x < 64)
	}
}

func vpH_C14_varint_lemmas() {
	x, u, b := vpInt64(), vpUint64(), vpUint64()
	var e encoding.Encbuf
	e.PutVarint64(x)
	e.PutUvarint64(u)
	e.PutBE64(b)
	d := encoding.Decbuf{B: e.Get()}
	gx, gu, gb := d.Varint64(), d.Uvarint64(), d.Be64()
	vpObserve("x", gx)
	vpObserve("u", gu)
	vpAssert(gx == x, "varint round trip")
	vpAssert(gu == u, "uvarint round trip")
	vpAssert(gb == b, "be64 round trip")
	vpAssert(d.Err() == nil && d.Len() == 0, "consumes exactly what was written")
	vpReach("end")
}

func vpXSameSamples(got, want []RefSample, checkST bool) {
	vpAssert(len(got) == len(want), "sample count")
	if len(got) != len(want) {
		return
	}
	for i := range want {
		vpObserve("ref", uint64(got[i].Ref))
		vpObserve("t", got[i].T)
		vpAssert(got[i].Ref == want[i].Ref, "ref")
		vpAssert(got[i].T == want[i].T, "timestamp")
		vpAssert(math.Float64bits(got[i].V) == math.Float64bits(want[i].V), "value bits")
		if checkST {
			vpObserve("st", got[i].ST)
			vpAssert(got[i].ST == want[i].ST, "start timestamp")
		}
	}
}

func vpH_C14_samples_v1() {
	hi := 2
	if vpThorough() {
		hi = 3
	}
	n := vpShape("n", 0, hi)
	ss := make([]RefSample, n)
	for i := range ss {
		ss[i] = RefSample{Ref: chunks.HeadSeriesRef(vpUint64()), T: vpInt64(), V: vpFloat64()}
	}
	var enc Encoder
	b := enc.Samples(ss, nil)
	var dec Decoder
	got, err := dec.Samples(b, nil)
	vpAssert(err == nil, "decodes without error")
	vpXSameSamples(got, ss, false)
	vpReach("end")
}

func vpH_C14_samples_v2() {
	hi := 2
	if vpThorough() {
		hi = 3
	}
	n := vpShape("n", 1, 3)
	nf := 3 * n
	focus := -1 // quick, n == 3: no focus field (all variable-length fields small), exercises the ST marker cases
	if n <= hi {
		focus = vpShape("focus", 0, nf-1)
	}
	ss := make([]RefSample, n)
	for i := range ss {
		ss[i] = RefSample{Ref: chunks.HeadSeriesRef(vpUint64()), T: vpInt64(), ST: vpInt64(), V: vpFloat64()}
		if i == 0 {
			vpXSmall(focus == 0, int64(ss[0].Ref))
			vpXSmall(focus == 1, ss[0].T)
			vpXSmall(focus == 2, ss[0].ST)
		} else {
			vpXSmall(focus == 3*i, int64(ss[i].Ref)-int64(ss[i-1].Ref))
			vpXSmall(focus == 3*i+1, ss[i].T-ss[0].T)
			vpXSmall(focus == 3*i+2, ss[i].ST-ss[0].ST)
		}
	}
	enc := Encoder{EnableSTStorage: true}
	b := enc.Samples(ss, nil)
	var dec Decoder
	got, err := dec.Samples(b, nil)
	vpAssert(err == nil, "decodes without error")
	vpXSameSamples(got, ss, true)
	vpReach("end")
}

func vpH_C14_tombstones() {
	hi := 1
	if vpThorough() {
		hi = 2
	}
	n := vpShape("n", 0, hi)
	ts := make([]tombstones.Stone, n)
	for i := range ts {
		ts[i] = tombstones.Stone{Ref: storage.SeriesRef(vpUint64()), Intervals: tombstones.Intervals{{Mint: vpInt64(), Maxt: vpInt64()}}}
	}
	var enc Encoder
	b := enc.Tombstones(ts, nil)
	var dec Decoder
	got, err := dec.Tombstones(b, nil)
	vpAssert(err == nil, "decodes without error")
	vpAssert(len(got) == n, "stone count")
	if len(got) != n {
		return
	}
	for i := range ts {
		vpAssert(got[i].Ref == ts[i].Ref, "ref")
		vpAssert(len(got[i].Intervals) == 1, "one interval per record entry")
		if len(got[i].Intervals) == 1 {
			vpObserve("mint", got[i].Intervals[0].Mint)
			vpAssert(got[i].Intervals[0] == ts[i].Intervals[0], "interval")
		}
	}
	vpReach("end")
}

// one histogram with one span and one bucket per side; field k is the focus
func vpXHist(focus int, base int) *histogram.Histogram {
	h := &histogram.Histogram{
		CounterResetHint: histogram.CounterResetHint(vpUint8() & 3),
		Schema:           vpInt32(),
		ZeroThreshold:    vpFloat64(),
		ZeroCount:        vpUint64(),
		Count:            vpUint64(),
		Sum:              vpFloat64(),
		PositiveSpans:    []histogram.Span{{Offset: vpInt32(), Length: vpUint32()}},
		NegativeSpans:    []histogram.Span{{Offset: vpInt32(), Length: vpUint32()}},
		PositiveBuckets:  []int64{vpInt64()},
		NegativeBuckets:  []int64{vpInt64()},
	}
	_ = focus == base
	vpAssume(vpAnd(h.Schema >= histogram.ExponentialSchemaMin, h.Schema <= histogram.ExponentialSchemaMax)) // valid exponential schema (Validate)
	vpXSmallU(focus == base+1, h.ZeroCount)
	vpXSmallU(focus == base+2, h.Count)
	vpXSmall(focus == base+3, int64(h.PositiveSpans[0].Offset))
	vpXSmallU(focus == base+4, uint64(h.PositiveSpans[0].Length))
	vpXSmall(focus == base+5, int64(h.NegativeSpans[0].Offset))
	vpXSmallU(focus == base+6, uint64(h.NegativeSpans[0].Length))
	vpXSmall(focus == base+7, h.PositiveBuckets[0])
	vpXSmall(focus == base+8, h.NegativeBuckets[0])
	return h
}

func vpXSameHist(g, w *histogram.Histogram) {
	vpAssert(g != nil, "histogram present")
	if g == nil {
		return
	}
	vpObserve("schema", g.Schema)
	vpObserve("count", g.Count)
	vpAssert(g.CounterResetHint == w.CounterResetHint, "counter reset hint")
	vpAssert(g.Schema == w.Schema, "schema")
	vpAssert(math.Float64bits(g.ZeroThreshold) == math.Float64bits(w.ZeroThreshold), "zero threshold bits")
	vpAssert(g.ZeroCount == w.ZeroCount, "zero count")
	vpAssert(g.Count == w.Count, "count")
	vpAssert(math.Float64bits(g.Sum) == math.Float64bits(w.Sum), "sum bits")
	vpAssert(len(g.PositiveSpans) == len(w.PositiveSpans) && len(g.NegativeSpans) == len(w.NegativeSpans), "span counts")
	vpAssert(len(g.PositiveBuckets) == len(w.PositiveBuckets) && len(g.NegativeBuckets) == len(w.NegativeBuckets), "bucket counts")
	if len(g.PositiveSpans) == len(w.PositiveSpans) && len(g.NegativeSpans) == len(w.NegativeSpans) {
		for i := range w.PositiveSpans {
			vpAssert(g.PositiveSpans[i] == w.PositiveSpans[i], "positive span")
		}
		for i := range w.NegativeSpans {
			vpAssert(g.NegativeSpans[i] == w.NegativeSpans[i], "negative span")
		}
	}
	if len(g.PositiveBuckets) == len(w.PositiveBuckets) && len(g.NegativeBuckets) == len(w.NegativeBuckets) {
		for i := range w.PositiveBuckets {
			vpObserve("pb", g.PositiveBuckets[i])
			vpAssert(g.PositiveBuckets[i] == w.PositiveBuckets[i], "positive bucket")
		}
		for i := range w.NegativeBuckets {
			vpAssert(g.NegativeBuckets[i] == w.NegativeBuckets[i], "negative bucket")
		}
	}
}

func vpH_C14_histogram_v1() {
	focus := vpShape("focus", 0, 8)
	r := RefHistogramSample{Ref: chunks.HeadSeriesRef(vpUint64()), T: vpInt64(), H: vpXHist(focus, 0)}
	var enc Encoder
	b, left := enc.HistogramSamples([]RefHistogramSample{r}, nil)
	vpAssert(len(left) == 0, "no leftovers for an exponential histogram")
	var dec Decoder
	got, err := dec.HistogramSamples(b, nil)
	vpAssert(err == nil, "decodes without error")
	vpAssert(len(got) == 1, "one histogram")
	if len(got) == 1 {
		vpAssert(got[0].Ref == r.Ref && got[0].T == r.T, "ref and timestamp")
		vpXSameHist(got[0].H, r.H)
	}
	vpReach("end")
}

func vpH_C14_histogram_v2() {
	focus := vpShape("focus", 0, 11)
	r := RefHistogramSample{Ref: chunks.HeadSeriesRef(vpUint64()), T: vpInt64(), ST: vpInt64(), H: vpXHist(focus, 3)}
	vpXSmall(focus == 0, int64(r.Ref))
	vpXSmall(focus == 1, r.T)
	vpXSmall(focus == 2, r.ST)
	enc := Encoder{EnableSTStorage: true}
	b, left := enc.HistogramSamples([]RefHistogramSample{r}, nil)
	vpAssert(len(left) == 0, "no leftovers in the V2 format")
	var dec Decoder
	got, err := dec.HistogramSamples(b, nil)
	vpAssert(err == nil, "decodes without error")
	vpAssert(len(got) == 1, "one histogram")
	if len(got) == 1 {
		vpAssert(got[0].Ref == r.Ref && got[0].T == r.T, "ref and timestamp")
		vpAssert(got[0].ST == r.ST, "start timestamp")
		vpXSameHist(got[0].H, r.H)
	}
	vpReach("end")
}

// V1 splits custom-bucket histograms off as leftovers; both records together contain every input once, in order.
func vpH_C14_histogram_v1_split() {
	which := vpShape("custom", 0, 3) // bit i: histogram i uses custom buckets
	hs := make([]RefHistogramSample, 2)
	for i := range hs {
		h := &histogram.Histogram{Count: vpUint64(), Sum: vpFloat64(), PositiveSpans: []histogram.Span{{Offset: 0, Length: 1}}, PositiveBuckets: []int64{vpInt64()}}
		vpXSmallU(false, h.Count)
		vpXSmall(false, h.PositiveBuckets[0])
		if which&(1<<i) != 0 {
			h.Schema = histogram.CustomBucketsSchema
			h.CustomValues = []float64{vpFloat64()}
		}
		hs[i] = RefHistogramSample{Ref: chunks.HeadSeriesRef(vpUint64()), T: vpInt64(), H: h}
		vpXSmall(false, int64(hs[i].Ref))
		vpXSmall(false, hs[i].T)
	}
	var enc Encoder
	var dec Decoder
	b, left := enc.HistogramSamples(hs, nil)
	var got []RefHistogramSample
	if len(b) > 0 {
		var err error
		got, err = dec.HistogramSamples(b, nil)
		vpAssert(err == nil, "decodes without error")
	}
	var gotCB []RefHistogramSample
	if len(left) > 0 {
		cb := enc.CustomBucketsHistogramSamples(left, nil)
		var err error
		gotCB, err = dec.HistogramSamples(cb, nil)
		vpAssert(err == nil, "custom-bucket record decodes without error")
	}
	ie, ic := 0, 0
	for i := range hs {
		var g *RefHistogramSample
		if which&(1<<i) != 0 {
			vpAssert(ic < len(gotCB), "custom-bucket histogram present in the leftover record")
			if ic < len(gotCB) {
				g = &gotCB[ic]
			}
			ic++
		} else {
			vpAssert(ie < len(got), "exponential histogram present in the main record")
			if ie < len(got) {
				g = &got[ie]
			}
			ie++
		}
		if g != nil {
			vpAssert(g.Ref == hs[i].Ref && g.T == hs[i].T, "ref and timestamp")
			vpAssert(g.H.Count == hs[i].H.Count && g.H.Schema == hs[i].H.Schema, "count and schema")
			vpAssert(len(g.H.PositiveBuckets) == 1 && g.H.PositiveBuckets[0] == hs[i].H.PositiveBuckets[0], "bucket")
			if which&(1<<i) != 0 {
				vpAssert(len(g.H.CustomValues) == 1 && math.Float64bits(g.H.CustomValues[0]) == math.Float64bits(hs[i].H.CustomValues[0]), "custom bound bits")
			}
		}
	}
	vpAssert(ie == len(got) && ic == len(gotCB), "nothing duplicated")
	vpReach("end")
}
