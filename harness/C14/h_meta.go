//vp:property C14
//vp:pkg ./tsdb/record
//vp:roots github.com/dennwc/varint ./tsdb/encoding ./model/histogram ./tsdb/tombstones ./tsdb/chunks ./model/labels
//vp:bounds series records: 1..2 series with arbitrary 64-bit refs and concrete label sets (incl. an empty value); metadata records: 1..2 entries with arbitrary ref and type byte, concrete unit/help strings (incl. empty); exemplar records: 1..2 exemplars with arbitrary first ref/timestamp, arbitrary value bits, concrete label sets, the second exemplar's ref delta or timestamp delta arbitrary (one at a time, the other in [-64,64))
package record

import (
	"math"

	"github.com/prometheus/prometheus/model/labels"
	"github.com/prometheus/prometheus/tsdb/chunks"
)

func vpH_C14_series() {
	n := vpShape("n", 1, 2)
	lsets := []labels.Labels{labels.FromStrings("__name__", "up", "job", ""), labels.FromStrings("a", "b")}
	in := make([]RefSeries, n)
	for i := range in {
		in[i] = RefSeries{Ref: chunks.HeadSeriesRef(vpUint64()), Labels: lsets[i]}
	}
	var enc Encoder
	b := enc.Series(in, nil)
	dec := NewDecoder(labels.NewSymbolTable(), nil)
	got, err := dec.Series(b, nil)
	vpAssert(err == nil, "decodes without error")
	vpAssert(len(got) == n, "number of series")
	if len(got) == n {
		for i := range in {
			vpObserve("ref", uint64(got[i].Ref))
			vpAssert(got[i].Ref == in[i].Ref, "series reference")
			vpAssert(labels.Equal(got[i].Labels, in[i].Labels), "labels")
		}
	}
	vpReach("end")
}

func vpH_C14_metadata() {
	n := vpShape("n", 1, 2)
	in := make([]RefMetadata, n)
	for i := range in {
		in[i] = RefMetadata{Ref: chunks.HeadSeriesRef(vpUint64()), Type: vpByte(), Unit: []string{"seconds", ""}[i], Help: []string{"", "help text"}[i]}
	}
	var enc Encoder
	b := enc.Metadata(in, nil)
	var dec Decoder
	got, err := dec.Metadata(b, nil)
	vpAssert(err == nil, "decodes without error")
	vpAssert(len(got) == n, "number of entries")
	if len(got) == n {
		for i := range in {
			vpObserve("ref", uint64(got[i].Ref))
			vpAssert(got[i].Ref == in[i].Ref && got[i].Type == in[i].Type, "reference and type")
			vpAssert(got[i].Unit == in[i].Unit && got[i].Help == in[i].Help, "unit and help")
		}
	}
	vpReach("end")
}

func vpH_C14_exemplars() {
	n := vpShape("n", 0, 2)
	lsets := []labels.Labels{labels.FromStrings("trace_id", "abc"), labels.EmptyLabels()}
	in := make([]RefExemplar, n)
	for i := range in {
		in[i] = RefExemplar{Ref: chunks.HeadSeriesRef(vpUint64()), T: vpInt64(), V: vpFloat64(), Labels: lsets[i]}
	}
	if n == 2 {
		focus := vpShape("focus", 0, 1)
		vpXSmall(focus == 0, int64(in[1].Ref)-int64(in[0].Ref))
		vpXSmall(focus == 1, in[1].T-in[0].T)
	}
	var enc Encoder
	b := enc.Exemplars(in, nil)
	dec := NewDecoder(labels.NewSymbolTable(), nil)
	got, err := dec.Exemplars(b, nil)
	vpAssert(err == nil, "decodes without error")
	vpAssert(len(got) == n, "number of exemplars")
	if len(got) == n {
		for i := range in {
			vpObserve("t", got[i].T)
			vpAssert(got[i].Ref == in[i].Ref && got[i].T == in[i].T, "reference and timestamp")
			vpAssert(math.Float64bits(got[i].V) == math.Float64bits(in[i].V), "value bit for bit")
			vpAssert(labels.Equal(got[i].Labels, in[i].Labels), "labels")
		}
	}
	vpReach("end")
}
