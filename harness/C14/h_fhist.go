//vp:property C14
//vp:pkg ./tsdb/record
//vp:roots github.com/dennwc/varint ./tsdb/encoding ./model/histogram ./tsdb/tombstones ./tsdb/chunks
//vp:bounds float-histogram records V1 and V2: one float histogram with one span and one bucket per side, every float field an arbitrary bit pattern, one variable-length field at a time arbitrary (others in [-64,64)); mmap-marker records: 2 markers with arbitrary refs
package record

import (
	"math"

	"github.com/prometheus/prometheus/model/histogram"
	"github.com/prometheus/prometheus/tsdb/chunks"
)

func vpXFHist(focus int, base int) *histogram.FloatHistogram {
	h := &histogram.FloatHistogram{
		CounterResetHint: histogram.CounterResetHint(vpUint8() & 3),
		Schema:           vpInt32(),
		ZeroThreshold:    vpFloat64(),
		ZeroCount:        vpFloat64(),
		Count:            vpFloat64(),
		Sum:              vpFloat64(),
		PositiveSpans:    []histogram.Span{{Offset: vpInt32(), Length: vpUint32()}},
		NegativeSpans:    []histogram.Span{{Offset: vpInt32(), Length: vpUint32()}},
		PositiveBuckets:  []float64{vpFloat64()},
		NegativeBuckets:  []float64{vpFloat64()},
	}
	vpAssume(vpAnd(h.Schema >= histogram.ExponentialSchemaMin, h.Schema <= histogram.ExponentialSchemaMax))
	vpXSmall(focus == base, int64(h.PositiveSpans[0].Offset))
	vpXSmallU(focus == base+1, uint64(h.PositiveSpans[0].Length))
	vpXSmall(focus == base+2, int64(h.NegativeSpans[0].Offset))
	vpXSmallU(focus == base+3, uint64(h.NegativeSpans[0].Length))
	return h
}

func vpXSameFHist(g, w *histogram.FloatHistogram) {
	vpAssert(g != nil, "histogram present")
	if g == nil {
		return
	}
	same := func(a, b float64) bool { return math.Float64bits(a) == math.Float64bits(b) }
	vpObserve("schema", g.Schema)
	vpAssert(g.CounterResetHint == w.CounterResetHint && g.Schema == w.Schema, "hint and schema")
	vpAssert(same(g.ZeroThreshold, w.ZeroThreshold) && same(g.ZeroCount, w.ZeroCount) && same(g.Count, w.Count) && same(g.Sum, w.Sum), "scalar fields bit for bit")
	vpAssert(len(g.PositiveSpans) == 1 && len(g.NegativeSpans) == 1 && len(g.PositiveBuckets) == 1 && len(g.NegativeBuckets) == 1, "shape")
	if len(g.PositiveSpans) == 1 && len(g.NegativeSpans) == 1 && len(g.PositiveBuckets) == 1 && len(g.NegativeBuckets) == 1 {
		vpAssert(g.PositiveSpans[0] == w.PositiveSpans[0] && g.NegativeSpans[0] == w.NegativeSpans[0], "spans")
		vpAssert(same(g.PositiveBuckets[0], w.PositiveBuckets[0]) && same(g.NegativeBuckets[0], w.NegativeBuckets[0]), "bucket bits")
	}
}

func vpH_C14_fhistogram_v1() {
	focus := vpShape("focus", 0, 3)
	r := RefFloatHistogramSample{Ref: chunks.HeadSeriesRef(vpUint64()), T: vpInt64(), FH: vpXFHist(focus, 0)}
	var enc Encoder
	b, left := enc.FloatHistogramSamples([]RefFloatHistogramSample{r}, nil)
	vpAssert(len(left) == 0, "no leftovers for an exponential histogram")
	var dec Decoder
	got, err := dec.FloatHistogramSamples(b, nil)
	vpAssert(err == nil, "decodes without error")
	vpAssert(len(got) == 1, "one histogram")
	if len(got) == 1 {
		vpAssert(got[0].Ref == r.Ref && got[0].T == r.T, "ref and timestamp")
		vpXSameFHist(got[0].FH, r.FH)
	}
	vpReach("end")
}

func vpH_C14_fhistogram_v2() {
	focus := vpShape("focus", 0, 6)
	r := RefFloatHistogramSample{Ref: chunks.HeadSeriesRef(vpUint64()), T: vpInt64(), ST: vpInt64(), FH: vpXFHist(focus, 3)}
	vpXSmall(focus == 0, int64(r.Ref))
	vpXSmall(focus == 1, r.T)
	vpXSmall(focus == 2, r.ST)
	enc := Encoder{EnableSTStorage: true}
	b, left := enc.FloatHistogramSamples([]RefFloatHistogramSample{r}, nil)
	vpAssert(len(left) == 0, "no leftovers in the V2 format")
	var dec Decoder
	got, err := dec.FloatHistogramSamples(b, nil)
	vpAssert(err == nil, "decodes without error")
	vpAssert(len(got) == 1, "one histogram")
	if len(got) == 1 {
		vpAssert(got[0].Ref == r.Ref && got[0].T == r.T && got[0].ST == r.ST, "ref, timestamp, start timestamp")
		vpXSameFHist(got[0].FH, r.FH)
	}
	vpReach("end")
}

func vpH_C14_mmap_markers() {
	n := vpShape("n", 0, 2)
	ms := make([]RefMmapMarker, n)
	for i := range ms {
		ms[i] = RefMmapMarker{Ref: chunks.HeadSeriesRef(vpUint64()), MmapRef: chunks.ChunkDiskMapperRef(vpUint64())}
	}
	var enc Encoder
	b := enc.MmapMarkers(ms, nil)
	var dec Decoder
	got, err := dec.MmapMarkers(b, nil)
	vpAssert(err == nil, "decodes without error")
	vpAssert(len(got) == n, "marker count")
	if len(got) == n {
		for i := range ms {
			vpObserve("ref", uint64(got[i].Ref))
			vpAssert(got[i] == ms[i], "marker")
		}
	}
	vpReach("end")
}
