//vp:property C18
//vp:pkg ./model/labels
//vp:tags purego dedupelabels
//vp:roots github.com/cespare/xxhash/v2 internal/stringslite
//vp:intercept (*github.com/cespare/xxhash/v2.Digest).WriteString => vpXWriteString_dedupelabels
//vp:bounds the stable label hash that shard selection uses (labels.StableHash of the dedupelabels build (same reference as for the default build, so the builds agree), with its switch from the 1 KiB buffer to the streaming xxhash digest): concrete label sets of 1..5 labels whose value lengths are drawn from {10, 200, 390, 520, 1100} (case split: below, at and across the buffer size, several labels after the switch); the result equals the one-shot XXH64 of name 0xff value 0xff ..., which is what the other label builds compute
//vp:assume in the engine Digest.WriteString (a string-header cast through unsafe) is replaced by Write([]byte(s)); the native replay uses the library's own. Differential oracle: the streaming xxhash.Digest (pure-Go build of the library, tag purego) against one-shot XXH64 over the same bytes; label contents concrete, no solver-decided input
package labels

import "github.com/cespare/xxhash/v2"

func vpXWriteString_dedupelabels(d *xxhash.Digest, s string) (int, error) { return d.Write([]byte(s)) }

func vpH_C18_stable_hash_large_sets_dedupelabels() {
	n := vpShape("labels", 1, 5)
	var kv []string
	var ref []byte
	for i := 0; i < n; i++ {
		l := []int{10, 200, 390, 520, 1100}[vpShape("len", 0, 4)]
		name := string([]byte{'l', byte('a' + i)})
		val := make([]byte, l)
		for j := range val {
			val[j] = byte('0' + (i+j)%10)
		}
		kv = append(kv, name, string(val))
		ref = append(ref, name...)
		ref = append(ref, 0xff)
		ref = append(ref, val...)
		ref = append(ref, 0xff)
	}
	ls := FromStrings(kv...)
	got := StableHash(ls)
	vpObserve("hash", got)
	vpAssert(got == xxhash.Sum64(ref), "stable hash = XXH64 over name 0xff value 0xff of every label, whatever the size")
	vpReach("end")
}
