//vp:property C18
//vp:pkg ./tsdb
//vp:roots ./tsdb/index ./storage ./tsdb/chunks ./model/labels
//vp:bounds headIndexReader.ShardedPostings over a head holding 3 series with arbitrary 64-bit shard hashes, arbitrary shardCount >= 1 and shardIndex < shardCount, postings listing any subset of the series plus an unknown reference
//vp:assume the per-series shard hash is an arbitrary uint64 (the stable label hash itself - its equality across the three label builds - is not decided here)
package tsdb

import (
	"log/slog"

	"github.com/prometheus/prometheus/model/labels"
	"github.com/prometheus/prometheus/storage"
	"github.com/prometheus/prometheus/tsdb/chunks"
	"github.com/prometheus/prometheus/tsdb/index"
)

// Shard selection is a partition: a series is returned for shard index i of n iff hash mod n == i
// (so every series is in exactly one shard), in postings order, nothing else is returned.
func vpH_C18_shard_partition() {
	h := &Head{opts: &HeadOptions{EnableSharding: true}, logger: slog.New(slog.DiscardHandler)}
	h.series = newStripeSeries(4, nil)
	refs := []chunks.HeadSeriesRef{1, 2, 7}
	hashes := make([]uint64, len(refs))
	for i, r := range refs {
		hashes[i] = vpUint64()
		s := newMemSeries(labels.EmptyLabels(), r, hashes[i], true, false) // the real constructor stores the shard hash
		h.series.series[h.series.refStripe(r)][r] = s
	}
	count := vpUint64()
	idx := vpUint64()
	vpAssume(count >= 1)
	vpAssume(idx < count)
	in := []storage.SeriesRef{1, 2, 5, 7} // 5 does not exist
	ir := &headIndexReader{head: h}
	p := ir.ShardedPostings(index.NewListPostings(in), idx, count)
	var out []storage.SeriesRef
	for p.Next() {
		out = append(out, p.At())
		if len(out) > 5 {
			break
		}
	}
	vpAssert(p.Err() == nil, "no error")
	vpObserve("n", len(out))
	for i, o := range out {
		if i > 0 {
			vpAssert(out[i-1] < o, "postings order kept")
		}
		k := -1
		for j, r := range refs {
			if storage.SeriesRef(r) == o {
				k = j
			}
		}
		vpAssert(k >= 0, "only existing series are returned")
		if k >= 0 {
			vpAssert(hashes[k]%count == idx, "a returned series belongs to the requested shard")
		}
	}
	for j, r := range refs {
		present := false
		for _, o := range out {
			if o == storage.SeriesRef(r) {
				present = true
			}
		}
		vpAssert(vpImplies(hashes[j]%count == idx, present), "every series of the shard is returned")
	}
	vpReach("end")
}
