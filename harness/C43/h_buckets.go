//vp:property C43
//vp:pkg ./storage/remote/otlptranslator/prometheusremotewrite
//vp:bounds convertBucketsLayout: n<=5 source buckets (quick n<=4) with arbitrary uint64 counts < 2^59, offset any int32 in [-2^20, 2^20], scaleDown 0..4 with adjustOffset=true (exponential histograms) and scaleDown=0 with adjustOffset=false (explicit buckets) - the two ways the function is called
//vp:assume bucket counts < 2^59 so that sums of <=5 counts do not wrap int64
package prometheusremotewrite

// Property: each target bucket holds the sum of the source buckets it covers (and nothing else).
// q is a skolem target index: the assertion is decided for every q at once.
func vpH_C43_bucketsLayout() {
	hi := 4
	if vpThorough() {
		hi = 5
	}
	n := vpShape("n", 0, hi)
	mode := vpShape("mode", 0, 5) // 0..4: scaleDown with adjustOffset; 5: explicit buckets
	scaleDown := int32(mode)
	adjust := true
	if mode == 5 {
		scaleDown, adjust = 0, false
	}
	counts := make([]uint64, n)
	for i := range counts {
		counts[i] = vpUint64()
		vpAssume(counts[i] < 1<<59)
	}
	offset := vpInt32()
	vpAssume(offset >= -(1<<20) && offset <= 1<<20)
	q := vpInt32()

	// reference, from the property text: target index of source i is ((i+offset)>>scaleDown)+1
	// (for explicit buckets the function keeps raw indexes: i+offset).
	var ref int64
	for i := range counts {
		tgt := (int32(i)+offset)>>scaleDown + 1
		if !adjust {
			tgt = int32(i) + offset
		}
		ref += vpIte(tgt == q, int64(counts[i]), 0)
	}

	spans, deltas := convertBucketsLayout(counts, offset, scaleDown, adjust)

	// decode (spans, deltas) into the count at index q
	var got, cur int64
	var idx int32
	di := 0
	ok := true
	for si, s := range spans {
		if si == 0 {
			idx = s.Offset
		} else {
			idx += s.Offset
			ok = vpAnd(ok, s.Offset > 0)
		}
		for j := uint32(0); j < s.Length; j++ {
			if di >= len(deltas) {
				ok = false
				break
			}
			cur += deltas[di]
			di++
			got += vpIte(idx == q, cur, 0)
			idx++
		}
	}
	vpObserve("nspans", len(spans))
	vpObserve("ndeltas", len(deltas))
	for i := range deltas {
		vpObserve("delta", deltas[i])
	}
	vpAssert(ok && di == len(deltas), "spans and deltas are consistent")
	vpAssert(got == ref, "each target bucket holds the sum of the source buckets it covers")
	vpReach("end")
}
