//vp:property C11
//vp:pkg ./tsdb/chunkenc
//vp:roots ./model/histogram ./model/value
//vp:bounds iterator object reuse for histogram chunks (Chunk.Iterator(it) with a previously used iterator): an iterator that consumed 0..2 histograms of a first chunk (two-sided layout, custom or exponential schema by case split) and is then handed to a second chunk of the same or the other histogram kind returns exactly what a fresh iterator returns; chunk contents concrete
package chunkenc

import (
	"math"

	"github.com/prometheus/prometheus/model/histogram"
)

func vpXHistChunk(float bool, variant int) Chunk {
	var c Chunk
	if float {
		c = NewFloatHistogramChunk()
	} else {
		c = NewHistogramChunk()
	}
	app, err := c.Appender()
	if err != nil {
		panic(err)
	}
	for i := 0; i < 2; i++ {
		h := &histogram.Histogram{Schema: 1, ZeroThreshold: 0.5, ZeroCount: uint64(1 + i), Count: uint64(12 + 5*i), Sum: 2.5 * float64(i+1),
			PositiveSpans: []histogram.Span{{Offset: 1, Length: 2}}, PositiveBuckets: []int64{int64(3 + i), 1},
			NegativeSpans: []histogram.Span{{Offset: 0, Length: 1}}, NegativeBuckets: []int64{int64(4 + 2*i)}}
		switch variant {
		case 1:
			h = &histogram.Histogram{Schema: 0, ZeroThreshold: 0.001, ZeroCount: 0, Count: uint64(2 + i), Sum: -1,
				PositiveSpans: []histogram.Span{{Offset: -3, Length: 1}}, PositiveBuckets: []int64{int64(2 + i)}}
		case 2:
			h = &histogram.Histogram{Schema: histogram.CustomBucketsSchema, Count: uint64(5 + i), Sum: 7, CustomValues: []float64{1, 2},
				PositiveSpans: []histogram.Span{{Offset: 0, Length: 3}}, PositiveBuckets: []int64{int64(1 + i), 1, 0}}
		}
		t := int64(1000 + 777*i + 13*variant)
		var nc Chunk
		if float {
			nc, _, app, err = app.AppendFloatHistogram(nil, 0, t, h.ToFloat(nil), false)
		} else {
			nc, _, app, err = app.AppendHistogram(nil, 0, t, h, false)
		}
		if err != nil || nc != nil {
			panic("set-up append")
		}
	}
	return c
}

func vpH_C11_iterator_reuse() {
	aFloat := vpShape("firstIsFloat", 0, 1) == 1
	bFloat := vpShape("secondIsFloat", 0, 1) == 1
	a := vpXHistChunk(aFloat, vpShape("firstVariant", 0, 2))
	b := vpXHistChunk(bFloat, vpShape("secondVariant", 0, 2))
	it := a.Iterator(nil)
	consumed := vpShape("consumed", 0, 2)
	for i := 0; i < consumed; i++ {
		it.Next()
	}
	re := b.Iterator(it)
	fresh := b.Iterator(nil)
	n := 0
	for {
		v1, v2 := re.Next(), fresh.Next()
		vpAssert(v1 == v2, "same value type as a fresh iterator")
		if v1 == ValNone || v2 == ValNone {
			break
		}
		t1, h1 := re.AtFloatHistogram(nil)
		t2, h2 := fresh.AtFloatHistogram(nil)
		vpObserve("t", t1)
		vpAssert(t1 == t2, "same timestamp as a fresh iterator")
		vpAssert(h1.Equals(h2) && math.Float64bits(h1.Sum) == math.Float64bits(h2.Sum) && h1.CounterResetHint == h2.CounterResetHint, "same histogram as a fresh iterator")
		n++
		if n > 3 {
			break
		}
	}
	vpAssert(n == 2 && re.Err() == nil, "both histograms of the second chunk")
	vpReach("end")
}
