//vp:property C11
//vp:pkg ./tsdb/chunkenc
//vp:roots ./model/histogram
//vp:bounds layout reconciliation (expandIntSpansAndBuckets, insert, adjustForInserts, bucketIterator): two span layouts a, b of up to 2 spans each, enumerated concretely (quick: lengths 1..2, first offset 0..1, later offsets 1..2; thorough: lengths 0..2, first offset -1..1, later offsets 0..2), bucket counts arbitrary in [0, 2^60)
//vp:assume absolute bucket counts are non-negative (valid histograms)
package chunkenc

import (
	"math"

	"github.com/prometheus/prometheus/model/histogram"
)

func vpXBits(f float64) uint64 { return math.Float64bits(f) }

// vpXLayout enumerates a span layout through the shape and returns it with the list of bucket indexes it denotes.
func vpXLayout(name string) ([]histogram.Span, []int) {
	if vpThorough() {
		return vpXLayoutB(name, 0, -1, 1, 0, 2)
	}
	return vpXLayoutB(name, 1, 0, 1, 1, 2)
}

// vpXLayoutW is the layout space of the chunk round-trip harnesses: the quick bounds, plus zero-length spans in the thorough tier.
func vpXLayoutW(name string) ([]histogram.Span, []int) {
	if vpThorough() {
		return vpXLayoutB(name, 0, 0, 1, 1, 2)
	}
	return vpXLayoutB(name, 1, 0, 1, 1, 2)
}

func vpXLayoutB(name string, lenLo, off0Lo, off0Hi, offLo, offHi int) ([]histogram.Span, []int) {
	n := vpShape(name+"spans", 0, 2)
	spans := make([]histogram.Span, n)
	var idxs []int
	idx := 0
	for i := range spans {
		var off int
		if i == 0 {
			off = vpShape(name+"off0", off0Lo, off0Hi)
		} else {
			off = vpShape(name+"off", offLo, offHi)
		}
		l := vpShape(name+"len", lenLo, 2)
		spans[i] = histogram.Span{Offset: int32(off), Length: uint32(l)}
		idx += off
		for j := 0; j < l; j++ {
			idxs = append(idxs, idx)
			idx++
		}
	}
	return spans, idxs
}

// vpXCounts draws n arbitrary absolute counts and returns them with their delta encoding.
func vpXCounts(n int) (abs, deltas []int64) {
	var prev int64
	for i := 0; i < n; i++ {
		c := vpInt64()
		vpAssume(vpAnd(c >= 0, c < 1<<60))
		abs = append(abs, c)
		deltas = append(deltas, c-prev)
		prev = c
	}
	return
}

func vpXAbsOf(deltas []int64) []int64 {
	out := make([]int64, len(deltas))
	var cur int64
	for i, d := range deltas {
		cur += d
		out[i] = cur
	}
	return out
}

func vpXIndexOf(idxs []int, idx int) int {
	for i, x := range idxs {
		if x == idx {
			return i
		}
	}
	return -1
}

func vpXSpanIdxs(spans []histogram.Span) []int {
	var idxs []int
	idx := 0
	for _, s := range spans {
		idx += int(s.Offset)
		for j := uint32(0); j < s.Length; j++ {
			idxs = append(idxs, idx)
			idx++
		}
	}
	return idxs
}

// If the layouts can be reconciled, expanding a with the forward inserts and b with the backward
// inserts gives two bucket lists over one merged layout = union of both index sets, in which every
// original bucket keeps its count and every inserted bucket is empty.
func vpH_C11_spans_reconcile_int() {
	a, aIdx := vpXLayout("a")
	b, bIdx := vpXLayout("b")
	aAbs, aDeltas := vpXCounts(len(aIdx))
	bAbs, bDeltas := vpXCounts(len(bIdx))
	fwd, bwd, ok := expandIntSpansAndBuckets(a, b, aDeltas, bDeltas)
	vpObserve("ok", ok)
	vpObserve("nfwd", len(fwd))
	vpObserve("nbwd", len(bwd))
	if !ok {
		// completeness of the refusal: some bucket of a is missing (non-empty) or lower in b
		bad := false
		for i, idx := range aIdx {
			j := vpXIndexOf(bIdx, idx)
			if j < 0 {
				bad = vpOr(bad, aAbs[i] != 0)
			} else {
				bad = vpOr(bad, aAbs[i] > bAbs[j])
			}
		}
		vpAssert(bad, "refused only when a bucket of a is missing or lower in b")
		vpReach("refused")
		return
	}
	merged := adjustForInserts(b, bwd)
	mIdx := vpXSpanIdxs(merged)
	// merged layout = union of the index sets
	for _, idx := range aIdx {
		vpAssert(vpXIndexOf(mIdx, idx) >= 0, "merged layout contains every bucket of a")
	}
	for _, idx := range bIdx {
		vpAssert(vpXIndexOf(mIdx, idx) >= 0, "merged layout contains every bucket of b")
	}
	for k, idx := range mIdx {
		vpAssert(vpXIndexOf(aIdx, idx) >= 0 || vpXIndexOf(bIdx, idx) >= 0, "merged layout contains nothing else")
		if k > 0 {
			vpAssert(mIdx[k-1] < idx, "merged layout strictly increasing")
		}
	}
	nIns := func(ins []Insert) int {
		n := 0
		for _, in := range ins {
			n += in.num
		}
		return n
	}
	vpAssert(len(aDeltas)+nIns(fwd) == len(mIdx), "forward inserts fill a up to the merged layout")
	vpAssert(len(bDeltas)+nIns(bwd) == len(mIdx), "backward inserts fill b up to the merged layout")
	if len(aDeltas)+nIns(fwd) != len(mIdx) || len(bDeltas)+nIns(bwd) != len(mIdx) {
		return
	}
	newA := vpXAbsOf(insert(aDeltas, make([]int64, len(mIdx)), fwd, true))
	newB := vpXAbsOf(insert(bDeltas, make([]int64, len(mIdx)), bwd, true))
	for k, idx := range mIdx {
		vpObserve("newA", newA[k])
		vpObserve("newB", newB[k])
		if i := vpXIndexOf(aIdx, idx); i >= 0 {
			vpAssert(newA[k] == aAbs[i], "bucket of a keeps its count")
		} else {
			vpAssert(newA[k] == 0, "inserted bucket of a is empty")
		}
		if j := vpXIndexOf(bIdx, idx); j >= 0 {
			vpAssert(newB[k] == bAbs[j], "bucket of b keeps its count")
		} else {
			vpAssert(newB[k] == 0, "inserted bucket of b is empty")
		}
	}
	// soundness (what C12 relies on): no bucket decreased
	for i, idx := range aIdx {
		j := vpXIndexOf(bIdx, idx)
		if j < 0 {
			vpAssert(aAbs[i] == 0, "a bucket absent from b was empty")
		} else {
			vpAssert(aAbs[i] <= bAbs[j], "no bucket count decreased")
		}
	}
	vpReach("reconciled")
}

// Gauge reconciliation: expanding a with the forward inserts and b with the backward inserts gives two
// bucket lists over the merged layout = union of both index sets, every original bucket keeps its count,
// every inserted bucket is empty - for arbitrary (also decreasing) counts.
func vpH_C11_spans_bothways() {
	a, aIdx := vpXLayout("a")
	b, bIdx := vpXLayout("b")
	aAbs, aDeltas := vpXCounts(len(aIdx))
	bAbs, bDeltas := vpXCounts(len(bIdx))
	fwd, bwd, merged := expandSpansBothWays(a, b)
	vpObserve("nfwd", len(fwd))
	vpObserve("nbwd", len(bwd))
	mIdx := vpXSpanIdxs(merged)
	for _, idx := range aIdx {
		vpAssert(vpXIndexOf(mIdx, idx) >= 0, "merged layout contains every bucket of a")
	}
	for _, idx := range bIdx {
		vpAssert(vpXIndexOf(mIdx, idx) >= 0, "merged layout contains every bucket of b")
	}
	for k, idx := range mIdx {
		vpAssert(vpXIndexOf(aIdx, idx) >= 0 || vpXIndexOf(bIdx, idx) >= 0, "merged layout contains nothing else")
		if k > 0 {
			vpAssert(mIdx[k-1] < idx, "merged layout strictly increasing")
		}
	}
	nIns := func(ins []Insert) int {
		n := 0
		for _, in := range ins {
			n += in.num
		}
		return n
	}
	vpAssert(len(aDeltas)+nIns(fwd) == len(mIdx), "forward inserts fill a up to the merged layout")
	vpAssert(len(bDeltas)+nIns(bwd) == len(mIdx), "backward inserts fill b up to the merged layout")
	if len(aDeltas)+nIns(fwd) != len(mIdx) || len(bDeltas)+nIns(bwd) != len(mIdx) {
		return
	}
	newA := vpXAbsOf(insert(aDeltas, make([]int64, len(mIdx)), fwd, true))
	newB := vpXAbsOf(insert(bDeltas, make([]int64, len(mIdx)), bwd, true))
	for k, idx := range mIdx {
		vpObserve("newA", newA[k])
		if i := vpXIndexOf(aIdx, idx); i >= 0 {
			vpAssert(newA[k] == aAbs[i], "bucket of a keeps its count")
		} else {
			vpAssert(newA[k] == 0, "inserted bucket of a is empty")
		}
		if j := vpXIndexOf(bIdx, idx); j >= 0 {
			vpAssert(newB[k] == bAbs[j], "bucket of b keeps its count")
		} else {
			vpAssert(newB[k] == 0, "inserted bucket of b is empty")
		}
	}
	// the same inserts applied to absolute (float-chunk style) values
	newAf := insert(aAbs, make([]int64, len(mIdx)), fwd, false)
	for k, idx := range mIdx {
		if i := vpXIndexOf(aIdx, idx); i >= 0 {
			vpAssert(newAf[k] == aAbs[i], "bucket of a keeps its count (absolute values)")
		} else {
			vpAssert(newAf[k] == 0, "inserted bucket of a is empty (absolute values)")
		}
	}
	vpReach("reconciled")
}

// Float twin of the counter reconciliation (expandFloatSpansAndBuckets): same statement over absolute float counts.
func vpH_C11_spans_reconcile_float() {
	a, aIdx := vpXLayout("a")
	b, bIdx := vpXLayout("b")
	nonNeg := func() float64 {
		f := vpFloat64()
		vpAssume(vpAnd(f == f, f >= 0))
		return f
	}
	av := make([]xorValue, len(aIdx))
	aAbs := make([]float64, len(aIdx))
	bv := make([]float64, len(bIdx))
	for i := range av {
		aAbs[i] = nonNeg()
		av[i].value = aAbs[i]
	}
	for i := range bv {
		bv[i] = nonNeg()
	}
	fwd, bwd, ok := expandFloatSpansAndBuckets(a, b, av, bv)
	vpObserve("ok", ok)
	if !ok {
		bad := false
		for i, idx := range aIdx {
			j := vpXIndexOf(bIdx, idx)
			if j < 0 {
				bad = vpOr(bad, aAbs[i] != 0)
			} else {
				bad = vpOr(bad, aAbs[i] > bv[j])
			}
		}
		vpAssert(bad, "refused only when a bucket of a is missing or lower in b")
		vpReach("refused")
		return
	}
	mIdx := vpXSpanIdxs(adjustForInserts(b, bwd))
	for _, idx := range aIdx {
		vpAssert(vpXIndexOf(mIdx, idx) >= 0, "merged layout contains every bucket of a")
	}
	for _, idx := range bIdx {
		vpAssert(vpXIndexOf(mIdx, idx) >= 0, "merged layout contains every bucket of b")
	}
	for k, idx := range mIdx {
		vpAssert(vpXIndexOf(aIdx, idx) >= 0 || vpXIndexOf(bIdx, idx) >= 0, "merged layout contains nothing else")
		if k > 0 {
			vpAssert(mIdx[k-1] < idx, "merged layout strictly increasing")
		}
	}
	nIns := func(ins []Insert) int {
		n := 0
		for _, in := range ins {
			n += in.num
		}
		return n
	}
	vpAssert(len(aAbs)+nIns(fwd) == len(mIdx), "forward inserts fill a up to the merged layout")
	vpAssert(len(bv)+nIns(bwd) == len(mIdx), "backward inserts fill b up to the merged layout")
	if len(aAbs)+nIns(fwd) != len(mIdx) || len(bv)+nIns(bwd) != len(mIdx) {
		return
	}
	newA := insert(aAbs, make([]float64, len(mIdx)), fwd, false)
	newB := insert(bv, make([]float64, len(mIdx)), bwd, false)
	bits := func(f float64) uint64 { return vpXBits(f) }
	for k, idx := range mIdx {
		if i := vpXIndexOf(aIdx, idx); i >= 0 {
			vpAssert(bits(newA[k]) == bits(aAbs[i]), "bucket of a keeps its count")
		} else {
			vpAssert(bits(newA[k]) == 0, "inserted bucket of a is empty")
		}
		if j := vpXIndexOf(bIdx, idx); j >= 0 {
			vpAssert(bits(newB[k]) == bits(bv[j]), "bucket of b keeps its count")
		} else {
			vpAssert(bits(newB[k]) == 0, "inserted bucket of b is empty")
		}
	}
	for i, idx := range aIdx {
		j := vpXIndexOf(bIdx, idx)
		if j < 0 {
			vpAssert(aAbs[i] == 0, "a bucket absent from b was empty")
		} else {
			vpAssert(aAbs[i] <= bv[j], "no bucket count decreased")
		}
	}
	vpReach("reconciled")
}
