//vp:property C11
//vp:pkg ./tsdb/chunkenc
//vp:roots ./model/histogram ./model/value
//vp:bounds appending resumes on a histogram chunk rebuilt from its bytes (what a restart from a chunk snapshot does: chunkenc.FromData, then Appender): HistogramChunk and FloatHistogramChunk holding 1..2 histograms (one positive span of 1..2 buckets, small concrete counts, timestamp steps 1 / 100 / 10000 by case split so that the bit length of the stream varies), then one more appendable histogram; every histogram is read back with its timestamp, count, zero count, sum and buckets
package chunkenc

import (
	"math"

	"github.com/prometheus/prometheus/model/histogram"
)

func vpH_C11_hist_resume_from_bytes() {
	n := vpShape("stored", 1, 2)
	nb := vpShape("buckets", 1, 2)
	steps := []int64{1, 100, 10000}
	mkH := func(i int) *histogram.Histogram {
		bs := make([]int64, nb)
		bs[0] = int64(3 + i)
		c := uint64(3+i) * uint64(nb)
		return &histogram.Histogram{Schema: 0, ZeroThreshold: 0.001, ZeroCount: uint64(i), Count: c + uint64(i), Sum: float64(i) + 0.5,
			PositiveSpans: []histogram.Span{{Offset: 0, Length: uint32(nb)}}, PositiveBuckets: bs}
	}
	var ts []int64
	t := int64(1000)
	c := Chunk(NewHistogramChunk())
	app, err := c.Appender()
	if err != nil {
		panic(err)
	}
	for i := 0; i < n; i++ {
		nc, _, a2, err := app.AppendHistogram(nil, 0, t, mkH(i), false)
		vpAssert(err == nil && nc == nil, "set-up appends stay in the chunk")
		app = a2
		ts = append(ts, t)
		t += steps[vpShape("step", 0, 2)]
	}
	// reload from bytes and resume
	re, err := FromData(EncHistogram, append([]byte(nil), c.Bytes()...))
	vpAssert(err == nil, "chunk reloads from its bytes")
	rapp, err := re.Appender()
	vpAssert(err == nil, "appender resumes")
	nc, _, _, err := rapp.AppendHistogram(nil, 0, t, mkH(n), false)
	vpAssert(err == nil && nc == nil, "the next histogram is appended to the reloaded chunk")
	ts = append(ts, t)
	it := re.Iterator(nil)
	k := 0
	for it.Next() == ValHistogram {
		vpAssert(k <= n, "no extra samples")
		if k > n {
			return
		}
		gt, g := it.AtHistogram(nil)
		w := mkH(k)
		vpObserve("t", gt)
		vpAssert(gt == ts[k], "timestamp")
		vpAssert(g.Count == w.Count && g.ZeroCount == w.ZeroCount && math.Float64bits(g.Sum) == math.Float64bits(w.Sum), "count, zero count and sum")
		vpAssert(len(g.PositiveBuckets) == nb, "bucket layout")
		if len(g.PositiveBuckets) == nb {
			for j := range w.PositiveBuckets {
				vpAssert(g.PositiveBuckets[j] == w.PositiveBuckets[j], "bucket counts")
			}
		}
		k++
	}
	vpAssert(it.Err() == nil, "no iterator error")
	vpAssert(k == n+1, "every histogram is read back, including the one appended after the reload")
	vpReach("end")
}

func vpH_C11_fhist_resume_from_bytes() {
	n := vpShape("stored", 1, 2)
	nb := vpShape("buckets", 1, 2)
	steps := []int64{1, 100, 10000}
	mkH := func(i int) *histogram.FloatHistogram {
		bs := make([]float64, nb)
		for j := range bs {
			bs[j] = float64(3+i) + 0.25*float64(j)
		}
		return &histogram.FloatHistogram{Schema: 0, ZeroThreshold: 0.001, ZeroCount: float64(i), Count: 10 + float64(i), Sum: float64(i) + 0.5,
			PositiveSpans: []histogram.Span{{Offset: 0, Length: uint32(nb)}}, PositiveBuckets: bs}
	}
	var ts []int64
	t := int64(1000)
	c := Chunk(NewFloatHistogramChunk())
	app, err := c.Appender()
	if err != nil {
		panic(err)
	}
	for i := 0; i < n; i++ {
		nc, _, a2, err := app.AppendFloatHistogram(nil, 0, t, mkH(i), false)
		vpAssert(err == nil && nc == nil, "set-up appends stay in the chunk")
		app = a2
		ts = append(ts, t)
		t += steps[vpShape("step", 0, 2)]
	}
	re, err := FromData(EncFloatHistogram, append([]byte(nil), c.Bytes()...))
	vpAssert(err == nil, "chunk reloads from its bytes")
	rapp, err := re.Appender()
	vpAssert(err == nil, "appender resumes")
	nc, _, _, err := rapp.AppendFloatHistogram(nil, 0, t, mkH(n), false)
	vpAssert(err == nil && nc == nil, "the next histogram is appended to the reloaded chunk")
	ts = append(ts, t)
	it := re.Iterator(nil)
	k := 0
	for it.Next() == ValFloatHistogram {
		vpAssert(k <= n, "no extra samples")
		if k > n {
			return
		}
		gt, g := it.AtFloatHistogram(nil)
		w := mkH(k)
		vpObserve("t", gt)
		vpAssert(gt == ts[k], "timestamp")
		vpAssert(g.Count == w.Count && g.ZeroCount == w.ZeroCount && math.Float64bits(g.Sum) == math.Float64bits(w.Sum), "count, zero count and sum")
		vpAssert(len(g.PositiveBuckets) == nb, "bucket layout")
		if len(g.PositiveBuckets) == nb {
			for j := range w.PositiveBuckets {
				vpAssert(g.PositiveBuckets[j] == w.PositiveBuckets[j], "bucket counts")
			}
		}
		k++
	}
	vpAssert(it.Err() == nil, "no iterator error")
	vpAssert(k == n+1, "every histogram is read back, including the one appended after the reload")
	vpReach("end")
}
