//vp:property C11
//vp:pkg ./tsdb/chunkenc
//vp:roots ./model/histogram ./model/value
//vp:bounds (vpH_C11_fhist_wiring is the FloatHistogramChunk twin with bucket counts 0/1 by case split)
//vp:bounds vpH_C11_hist_wiring: histogram chunk round trip through the public API (NewHistogramChunk, Appender, AppendHistogram incl. recode / recodeHistogram / new chunk on counter reset, Iterator.Next/AtHistogram) with both sides populated: positive layouts a, b as enumerated, chunk-side positive counts symbolic in [0,2), new-side counts 2; negative side one of {absent, same layout, grows forward, drops an empty bucket (backward insert)}; concrete timestamps 10, 20
package chunkenc

import (
	"github.com/prometheus/prometheus/model/histogram"
)

// Quick-tier wiring check: both sides of the histogram go through reconciliation, recode of the chunk and
// recode of the appended histogram; what is read back is what was appended, per bucket index, on each side.
func vpH_C11_hist_wiring() {
	aSp, aIdx := vpXLayoutW("a")
	bSp, bIdx := vpXLayoutW("b")
	var aAbs, aDeltas, bAbs, bDeltas []int64
	var prev int64
	for range aIdx {
		c := vpInt64()
		vpAssume(vpAnd(c >= 0, c < 2))
		aAbs, aDeltas = append(aAbs, c), append(aDeltas, c-prev)
		prev = c
	}
	prev = 0
	for range bIdx {
		bAbs, bDeltas = append(bAbs, 2), append(bDeltas, 2-prev)
		prev = 2
	}
	type side struct {
		sp  []histogram.Span
		idx []int
		abs []int64
	}
	mk := func(idx []int, abs []int64) side {
		var sp []histogram.Span
		last := 0
		for k, i := range idx {
			if k > 0 && i == last+1 {
				sp[len(sp)-1].Length++
			} else {
				off := i - last
				if k > 0 {
					off = i - last - 1
				}
				sp = append(sp, histogram.Span{Offset: int32(off), Length: 1})
			}
			last = i
		}
		return side{sp, idx, abs}
	}
	var n1, n2 side
	switch vpShape("negative", 0, 3) {
	case 1:
		n1, n2 = mk([]int{0, 1}, []int64{1, 1}), mk([]int{0, 1}, []int64{3, 3})
	case 2:
		n1, n2 = mk([]int{0}, []int64{1}), mk([]int{0, 1}, []int64{3, 3})
	case 3:
		n1, n2 = mk([]int{0, 2}, []int64{1, 0}), mk([]int{0}, []int64{3})
	}
	deltasOf := func(abs []int64) []int64 {
		var out []int64
		var p int64
		for _, a := range abs {
			out = append(out, a-p)
			p = a
		}
		return out
	}
	h1 := &histogram.Histogram{Schema: 0, ZeroThreshold: 0.001, ZeroCount: 1, Count: 5, Sum: 1, PositiveSpans: aSp, PositiveBuckets: aDeltas, NegativeSpans: n1.sp, NegativeBuckets: deltasOf(n1.abs)}
	h2 := &histogram.Histogram{Schema: 0, ZeroThreshold: 0.001, ZeroCount: 1, Count: 9, Sum: 2, PositiveSpans: bSp, PositiveBuckets: bDeltas, NegativeSpans: n2.sp, NegativeBuckets: deltasOf(n2.abs)}
	c := Chunk(NewHistogramChunk())
	app, err := c.Appender()
	if err != nil {
		panic(err)
	}
	nc, _, app, err := app.AppendHistogram(nil, 0, 10, h1.Copy(), false)
	vpAssert(err == nil && nc == nil, "first append stays in the chunk")
	chunksOut := []Chunk{c}
	nc, recoded, _, err := app.AppendHistogram(nil, 0, 20, h2.Copy(), false)
	vpAssert(err == nil, "second append succeeds")
	vpObserve("newchunk", nc != nil)
	vpObserve("recoded", recoded)
	if nc != nil {
		if recoded {
			chunksOut = []Chunk{nc}
		} else {
			chunksOut = append(chunksOut, nc)
		}
	}
	check := func(label string, gsp []histogram.Span, gb []int64, w side) {
		gIdx := vpXSpanIdxs(gsp)
		vpAssert(len(gIdx) == len(gb), label+": spans match buckets")
		if len(gIdx) != len(gb) {
			return
		}
		gAbs := vpXAbsOf(gb)
		for i, idx := range w.idx {
			j := vpXIndexOf(gIdx, idx)
			if j < 0 {
				vpAssert(w.abs[i] == 0, label+": only empty buckets may be dropped from the layout")
			} else {
				vpAssert(gAbs[j] == w.abs[i], label+": bucket count read back as appended")
			}
		}
		for j, idx := range gIdx {
			if vpXIndexOf(w.idx, idx) < 0 {
				vpAssert(gAbs[j] == 0, label+": buckets added by the chunk layout are empty")
			}
		}
	}
	wantsP := []side{{aSp, aIdx, aAbs}, {bSp, bIdx, bAbs}}
	wantsN := []side{n1, n2}
	k := 0
	for _, ch := range chunksOut {
		it := ch.Iterator(nil)
		for it.Next() == ValHistogram {
			vpAssert(k < 2, "no extra samples")
			if k >= 2 {
				return
			}
			ts, g := it.AtHistogram(nil)
			vpAssert(ts == int64(10*(k+1)), "timestamp")
			vpAssert(g.Count == []uint64{5, 9}[k] && g.ZeroCount == 1, "count and zero count")
			check("positive side", g.PositiveSpans, g.PositiveBuckets, wantsP[k])
			check("negative side", g.NegativeSpans, g.NegativeBuckets, wantsN[k])
			k++
		}
		vpAssert(it.Err() == nil, "no iterator error")
	}
	vpAssert(k == 2, "both histograms are read back")
	vpReach("end")
}

// Float-histogram twin of the wiring check (FloatHistogramChunk, counts 0/1 by case split): both sides of the histogram go through reconciliation, recode of the chunk and
// recode of the appended histogram; what is read back is what was appended, per bucket index, on each side.
func vpH_C11_fhist_wiring() {
	aSp, aIdx := vpXLayoutW("a")
	bSp, bIdx := vpXLayoutW("b")
	var aAbs, bAbs []float64
	for range aIdx {
		aAbs = append(aAbs, float64(vpShape("count", 0, 1)))
	}
	for range bIdx {
		bAbs = append(bAbs, 2)
	}
	type side struct {
		sp  []histogram.Span
		idx []int
		abs []float64
	}
	mk := func(idx []int, abs []float64) side {
		var sp []histogram.Span
		last := 0
		for k, i := range idx {
			if k > 0 && i == last+1 {
				sp[len(sp)-1].Length++
			} else {
				off := i - last
				if k > 0 {
					off = i - last - 1
				}
				sp = append(sp, histogram.Span{Offset: int32(off), Length: 1})
			}
			last = i
		}
		return side{sp, idx, abs}
	}
	var n1, n2 side
	switch vpShape("negative", 0, 3) {
	case 1:
		n1, n2 = mk([]int{0, 1}, []float64{1, 1}), mk([]int{0, 1}, []float64{3, 3})
	case 2:
		n1, n2 = mk([]int{0}, []float64{1}), mk([]int{0, 1}, []float64{3, 3})
	case 3:
		n1, n2 = mk([]int{0, 2}, []float64{1, 0}), mk([]int{0}, []float64{3})
	}
	h1 := &histogram.FloatHistogram{Schema: 0, ZeroThreshold: 0.001, ZeroCount: 1, Count: 5, Sum: 1, PositiveSpans: aSp, PositiveBuckets: aAbs, NegativeSpans: n1.sp, NegativeBuckets: n1.abs}
	h2 := &histogram.FloatHistogram{Schema: 0, ZeroThreshold: 0.001, ZeroCount: 1, Count: 9, Sum: 2, PositiveSpans: bSp, PositiveBuckets: bAbs, NegativeSpans: n2.sp, NegativeBuckets: n2.abs}
	c := Chunk(NewFloatHistogramChunk())
	app, err := c.Appender()
	if err != nil {
		panic(err)
	}
	nc, _, app, err := app.AppendFloatHistogram(nil, 0, 10, h1.Copy(), false)
	vpAssert(err == nil && nc == nil, "first append stays in the chunk")
	chunksOut := []Chunk{c}
	nc, recoded, _, err := app.AppendFloatHistogram(nil, 0, 20, h2.Copy(), false)
	vpAssert(err == nil, "second append succeeds")
	vpObserve("newchunk", nc != nil)
	vpObserve("recoded", recoded)
	if nc != nil {
		if recoded {
			chunksOut = []Chunk{nc}
		} else {
			chunksOut = append(chunksOut, nc)
		}
	}
	check := func(label string, gsp []histogram.Span, gAbs []float64, w side) {
		gIdx := vpXSpanIdxs(gsp)
		vpAssert(len(gIdx) == len(gAbs), label+": spans match buckets")
		if len(gIdx) != len(gAbs) {
			return
		}
		for i, idx := range w.idx {
			j := vpXIndexOf(gIdx, idx)
			if j < 0 {
				vpAssert(w.abs[i] == 0, label+": only empty buckets may be dropped from the layout")
			} else {
				vpAssert(gAbs[j] == w.abs[i], label+": bucket count read back as appended")
			}
		}
		for j, idx := range gIdx {
			if vpXIndexOf(w.idx, idx) < 0 {
				vpAssert(gAbs[j] == 0, label+": buckets added by the chunk layout are empty")
			}
		}
	}
	wantsP := []side{{aSp, aIdx, aAbs}, {bSp, bIdx, bAbs}}
	wantsN := []side{n1, n2}
	k := 0
	for _, ch := range chunksOut {
		it := ch.Iterator(nil)
		for it.Next() == ValFloatHistogram {
			vpAssert(k < 2, "no extra samples")
			if k >= 2 {
				return
			}
			ts, g := it.AtFloatHistogram(nil)
			vpAssert(ts == int64(10*(k+1)), "timestamp")
			vpAssert(g.Count == []float64{5, 9}[k] && g.ZeroCount == 1, "count and zero count")
			check("positive side", g.PositiveSpans, g.PositiveBuckets, wantsP[k])
			check("negative side", g.NegativeSpans, g.NegativeBuckets, wantsN[k])
			k++
		}
		vpAssert(it.Err() == nil, "no iterator error")
	}
	vpAssert(k == 2, "both histograms are read back")
	vpReach("end")
}
