//vp:property C11
//vp:pkg ./tsdb/chunkenc
//vp:roots ./model/histogram
//vp:assume recodeHistogram is called as AppendHistogram/AppendFloatHistogram call it: the spans of the histogram already adjusted to the merged layout (adjustForInserts), the buckets still in the histogram's own layout
//vp:bounds the step that applies the reconciliation to the histogram being appended (HistogramAppender.recodeHistogram and FloatHistogramAppender.recodeHistogram): layouts as in the reconciliation harness on the positive or the negative side (the other side one fixed bucket), arbitrary bucket counts; the histogram's buckets afterwards follow the merged layout with every original bucket keeping its count and inserted buckets empty, on both sides
package chunkenc

import (
	"math"

	"github.com/prometheus/prometheus/model/histogram"
)

func vpH_C11_recode_int() {
	a, aIdx := vpXLayout("a")
	b, bIdx := vpXLayout("b")
	_, aDeltas := vpXCounts(len(aIdx))
	bAbs, bDeltas := vpXCounts(len(bIdx))
	_, bwd, ok := expandIntSpansAndBuckets(a, b, aDeltas, bDeltas)
	if !ok || len(bwd) == 0 {
		vpReach("nothing to recode")
		return
	}
	mspans := adjustForInserts(b, bwd) // the caller pre-adjusts the spans of the histogram being appended
	mIdx := vpXSpanIdxs(mspans)
	neg := vpShape("negativeSide", 0, 1) == 1
	other := []histogram.Span{{Offset: 0, Length: 1}}
	h := &histogram.Histogram{PositiveSpans: mspans, PositiveBuckets: bDeltas, NegativeSpans: other, NegativeBuckets: []int64{7}}
	var app *HistogramAppender
	if neg {
		h = &histogram.Histogram{NegativeSpans: mspans, NegativeBuckets: bDeltas, PositiveSpans: other, PositiveBuckets: []int64{7}}
		app.recodeHistogram(h, nil, bwd)
	} else {
		app.recodeHistogram(h, bwd, nil)
	}
	got, untouched := h.PositiveBuckets, h.NegativeBuckets
	if neg {
		got, untouched = h.NegativeBuckets, h.PositiveBuckets
	}
	vpAssert(len(untouched) == 1 && untouched[0] == 7, "the other side is untouched")
	vpAssert(len(got) == len(mIdx), "bucket list follows the merged layout")
	if len(got) != len(mIdx) {
		return
	}
	abs := vpXAbsOf(got)
	for k, idx := range mIdx {
		vpObserve("abs", abs[k])
		if j := vpXIndexOf(bIdx, idx); j >= 0 {
			vpAssert(abs[k] == bAbs[j], "bucket keeps its count")
		} else {
			vpAssert(abs[k] == 0, "inserted bucket is empty")
		}
	}
	vpReach("recoded")
}

func vpH_C11_recode_float() {
	a, aIdx := vpXLayout("a")
	b, bIdx := vpXLayout("b")
	av := make([]xorValue, len(aIdx)) // zero counts in the chunk: every layout can be reconciled
	bv := make([]float64, len(bIdx))
	for i := range bv {
		bv[i] = vpFloat64()
		vpAssume(!math.IsNaN(bv[i]) && bv[i] >= 0)
	}
	_, bwd, ok := expandFloatSpansAndBuckets(a, b, av, bv)
	if !ok || len(bwd) == 0 {
		vpReach("nothing to recode")
		return
	}
	mspans := adjustForInserts(b, bwd) // the caller pre-adjusts the spans of the histogram being appended
	mIdx := vpXSpanIdxs(mspans)
	neg := vpShape("negativeSide", 0, 1) == 1
	other := []histogram.Span{{Offset: 0, Length: 1}}
	h := &histogram.FloatHistogram{PositiveSpans: mspans, PositiveBuckets: bv, NegativeSpans: other, NegativeBuckets: []float64{7}}
	var app *FloatHistogramAppender
	if neg {
		h = &histogram.FloatHistogram{NegativeSpans: mspans, NegativeBuckets: bv, PositiveSpans: other, PositiveBuckets: []float64{7}}
		app.recodeHistogram(h, nil, bwd)
	} else {
		app.recodeHistogram(h, bwd, nil)
	}
	got, untouched := h.PositiveBuckets, h.NegativeBuckets
	if neg {
		got, untouched = h.NegativeBuckets, h.PositiveBuckets
	}
	vpAssert(len(untouched) == 1 && untouched[0] == 7, "the other side is untouched")
	vpAssert(len(got) == len(mIdx), "bucket list follows the merged layout")
	if len(got) != len(mIdx) {
		return
	}
	for k, idx := range mIdx {
		if j := vpXIndexOf(bIdx, idx); j >= 0 {
			vpAssert(math.Float64bits(got[k]) == math.Float64bits(bv[j]), "bucket keeps its count")
		} else {
			vpAssert(math.Float64bits(got[k]) == 0, "inserted bucket is empty")
		}
	}
	vpReach("recoded")
}
