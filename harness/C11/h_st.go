//vp:property C11
//vp:pkg ./tsdb/chunkenc
//vp:roots ./model/histogram ./model/value
//vp:budget wall_s=900
//vp:bounds the start-timestamp-capable histogram encodings (HistogramSTChunk / FloatHistogramSTChunk: append, recode on a wider layout, resume on a chunk rebuilt from bytes, iterate with AtST): 3 histograms at t=1000,2000,3000 with layouts {0}, {0} or {0,1}, {0,1} (case split: a recode happens on the 2nd or 3rd append or not at all), start timestamps symbolic in [0,4096) for each sample or all zero (case split), optionally the chunk is rebuilt from its bytes before the 3rd append; every histogram is read back with its timestamp, start timestamp, count, sum and buckets
package chunkenc

import (
	"math"

	"github.com/prometheus/prometheus/model/histogram"
)

func vpH_C11_hist_st_roundtrip() {
	float := vpShape("float", 0, 1) == 1
	wide2 := vpShape("secondWide", 0, 1) == 1
	withST := vpShape("withST", 0, 1) == 1
	reload := vpShape("reloadBeforeThird", 0, 1) == 1
	var c Chunk
	if float {
		c = NewFloatHistogramSTChunk()
	} else {
		c = NewHistogramSTChunk()
	}
	mk := func(i int) *histogram.Histogram {
		nb := 1
		if i == 2 || (i == 1 && wide2) {
			nb = 2
		}
		bs := make([]int64, nb)
		bs[0] = int64(3 + i)
		return &histogram.Histogram{Schema: 0, ZeroThreshold: 0.001, ZeroCount: uint64(i), Count: uint64(3+i)*uint64(nb) + uint64(i), Sum: float64(i) + 0.5,
			PositiveSpans: []histogram.Span{{Offset: 0, Length: uint32(nb)}}, PositiveBuckets: bs}
	}
	app, err := c.Appender()
	if err != nil {
		panic(err)
	}
	var sts []int64
	for i := 0; i < 3; i++ {
		st := int64(0)
		if withST {
			st = vpInt64()
			vpAssume(vpAnd(st >= 0, st < 4096))
		}
		sts = append(sts, st)
		if i == 2 && reload {
			re, err := FromData(c.Encoding(), append([]byte(nil), c.Bytes()...))
			vpAssert(err == nil, "chunk reloads from its bytes")
			c = re
			app, err = c.Appender()
			vpAssert(err == nil, "appender resumes")
		}
		t := int64(1000 * (i + 1))
		var nc Chunk
		var recoded bool
		if float {
			nc, recoded, app, err = app.AppendFloatHistogram(nil, st, t, mk(i).ToFloat(nil), false)
		} else {
			nc, recoded, app, err = app.AppendHistogram(nil, st, t, mk(i), false)
		}
		vpAssert(err == nil, "append succeeds")
		if nc != nil {
			vpAssert(recoded, "a wider layout recodes the chunk, it does not cut it")
			c = nc
		}
	}
	it := c.Iterator(nil)
	k := 0
	for it.Next() != ValNone {
		vpAssert(k < 3, "no extra samples")
		if k >= 3 {
			return
		}
		gt, g := it.AtFloatHistogram(nil)
		w := mk(k).ToFloat(nil)
		vpObserve("st", it.AtST())
		vpAssert(gt == int64(1000*(k+1)), "timestamp")
		vpAssert(it.AtST() == sts[k], "start timestamp")
		vpAssert(g.Count == w.Count && g.ZeroCount == w.ZeroCount && math.Float64bits(g.Sum) == math.Float64bits(w.Sum), "count, zero count and sum")
		vpAssert(len(g.PositiveBuckets) >= len(w.PositiveBuckets) && g.PositiveBuckets[0] == w.PositiveBuckets[0], "first bucket")
		for j := range g.PositiveBuckets {
			if j < len(w.PositiveBuckets) {
				vpAssert(g.PositiveBuckets[j] == w.PositiveBuckets[j], "bucket counts")
			} else {
				vpAssert(g.PositiveBuckets[j] == 0, "buckets added by a wider layout are empty")
			}
		}
		k++
	}
	vpAssert(it.Err() == nil, "no iterator error")
	vpAssert(k == 3, "every histogram is read back")
	vpReach("end")
}
