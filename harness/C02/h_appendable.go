//vp:property C02
//vp:pkg ./tsdb
//vp:roots ./storage ./model/histogram ./tsdb/chunkenc ./tsdb/chunks
//vp:bounds appendable decision table: every int64 t, newest in-order time, head max time, minValidTime and out-of-order window >= 0, every float64 bit pattern; series state in {fresh, last=float, last=histogram, last=float histogram}; histogram payloads 0 buckets (Count/Sum symbolic)
//vp:bounds OOOChunk.Insert inductive step: arbitrary strictly sorted pre-state of n<=4 samples (quick n<=3), arbitrary (t, v)
//vp:assume headMaxt >= MinInt64 + window (what Head guarantees after the first append; the subtraction headMaxt-window is then exact)
package tsdb

import (
	"errors"
	"math"

	"github.com/prometheus/prometheus/model/histogram"
	"github.com/prometheus/prometheus/storage"
)

// error classes of the property text
const (
	vpXAccept = iota
	vpXDup
	vpXTooOld
	vpXOOB
	vpXOOO
	vpXOther
)

func vpXClass(err error) int {
	switch {
	case err == nil:
		return vpXAccept
	case errors.Is(err, storage.ErrDuplicateSampleForTimestamp):
		return vpXDup
	case err == storage.ErrTooOldSample:
		return vpXTooOld
	case err == storage.ErrOutOfBounds:
		return vpXOOB
	case err == storage.ErrOutOfOrderSample:
		return vpXOOO
	}
	return vpXOther
}

// reference decision table written from the property text.
// sameAsLast: the sample has the same type as the newest in-order sample and a bit-identical value.
func vpXRef(fresh bool, t, lastT, headMaxt, minValid, window int64, sameAsLast bool) (ooo bool, class int) {
	if t >= minValid {
		if fresh || t > lastT {
			return false, vpXAccept
		}
		if t == lastT {
			if sameAsLast {
				return false, vpXAccept
			}
			return false, vpXDup
		}
	}
	if window > 0 {
		if t >= headMaxt-window {
			return true, vpXAccept
		}
		return true, vpXTooOld
	}
	if t < minValid {
		return false, vpXOOB
	}
	return false, vpXOOO
}

func vpXSeries(state int, lastT int64, lastV float64, cnt uint64, sum float64) *memSeries {
	s := &memSeries{}
	if state != 0 {
		s.headChunks = &memChunk{minTime: lastT, maxTime: lastT}
	}
	switch state {
	case 1:
		s.lastValue = lastV
	case 2:
		s.lastHistogramValue = &histogram.Histogram{Count: cnt, Sum: sum}
	case 3:
		s.lastFloatHistogramValue = &histogram.FloatHistogram{Count: float64(cnt), Sum: sum}
	}
	return s
}

func vpH_C02_appendable_float() {
	state := vpShape("state", 0, 3)
	lastT, lastV := vpInt64(), vpFloat64()
	s := vpXSeries(state, lastT, lastV, vpUint64(), vpFloat64())
	t, v := vpInt64(), vpFloat64()
	headMaxt, minValid, window := vpInt64(), vpInt64(), vpInt64()
	vpAssume(window >= 0)
	vpAssume(headMaxt >= math.MinInt64+window)
	isOOO, _, err := s.appendable(t, v, headMaxt, minValid, window)
	same := state == 1 && math.Float64bits(lastV) == math.Float64bits(v)
	wantOOO, wantClass := vpXRef(state == 0, t, lastT, headMaxt, minValid, window, same)
	got := vpXClass(err)
	vpObserve("ooo", isOOO)
	vpObserve("class", got)
	vpAssert(got == wantClass, "error class matches the documented ordering rules")
	vpAssert(isOOO == wantOOO, "out-of-order routing matches the documented rules")
	vpReach("end")
}

func vpH_C02_appendable_histogram() {
	state := vpShape("state", 0, 3)
	lastT := vpInt64()
	lc, ls := vpUint64(), vpFloat64()
	s := vpXSeries(state, lastT, vpFloat64(), lc, ls)
	t := vpInt64()
	hc, hs := vpUint64(), vpFloat64()
	h := &histogram.Histogram{Count: hc, Sum: hs}
	headMaxt, minValid, window := vpInt64(), vpInt64(), vpInt64()
	vpAssume(window >= 0)
	vpAssume(headMaxt >= math.MinInt64+window)
	isOOO, _, err := s.appendableHistogram(t, h, headMaxt, minValid, window)
	// "bit-identical value": same count and same sum bits (both histograms have the zero layout)
	same := state == 2 && lc == hc && math.Float64bits(ls) == math.Float64bits(hs)
	wantOOO, wantClass := vpXRef(state == 0, t, lastT, headMaxt, minValid, window, same)
	got := vpXClass(err)
	vpObserve("ooo", isOOO)
	vpObserve("class", got)
	vpAssert(got == wantClass, "error class matches the documented ordering rules")
	vpAssert(isOOO == wantOOO, "out-of-order routing matches the documented rules")
	vpReach("end")
}

func vpH_C02_appendable_floathistogram() {
	state := vpShape("state", 0, 3)
	lastT := vpInt64()
	lc, ls := vpFloat64(), vpFloat64()
	s := vpXSeries(state, lastT, vpFloat64(), 0, ls)
	if state == 3 {
		s.lastFloatHistogramValue.Count = lc
	}
	t := vpInt64()
	hc, hs := vpFloat64(), vpFloat64()
	fh := &histogram.FloatHistogram{Count: hc, Sum: hs}
	headMaxt, minValid, window := vpInt64(), vpInt64(), vpInt64()
	vpAssume(window >= 0)
	vpAssume(headMaxt >= math.MinInt64+window)
	isOOO, _, err := s.appendableFloatHistogram(t, fh, headMaxt, minValid, window)
	same := state == 3 && math.Float64bits(lc) == math.Float64bits(hc) && math.Float64bits(ls) == math.Float64bits(hs)
	wantOOO, wantClass := vpXRef(state == 0, t, lastT, headMaxt, minValid, window, same)
	got := vpXClass(err)
	vpObserve("ooo", isOOO)
	vpObserve("class", got)
	vpAssert(got == wantClass, "error class matches the documented ordering rules")
	vpAssert(isOOO == wantOOO, "out-of-order routing matches the documented rules")
	vpReach("end")
}

// OOOChunk.Insert from an arbitrary strictly sorted state: result stays strictly sorted, equals
// pre ∪ {t} when t is new (true) and is unchanged when t is present (false: the earlier sample wins).
func vpH_C02_oooInsert_step() {
	hi := 3
	if vpThorough() {
		hi = 4
	}
	n := vpShape("n", 0, hi)
	o := NewOOOChunk()
	pre := make([]sample, n)
	for i := range pre {
		pre[i].t, pre[i].f = vpInt64(), vpFloat64()
		if i > 0 {
			vpAssume(pre[i-1].t < pre[i].t)
		}
	}
	o.samples = append(o.samples, pre...)
	t, v := vpInt64(), vpFloat64()
	present := false
	for i := range pre {
		present = vpOr(present, pre[i].t == t)
	}
	ok := o.Insert(0, t, v, nil, nil)
	vpObserve("ok", ok)
	vpObserve("len", len(o.samples))
	vpAssert(ok == !present, "Insert reports whether the timestamp was new")
	wantLen := n
	if ok {
		wantLen = n + 1
	}
	vpAssert(len(o.samples) == wantLen, "length")
	sorted := true
	for i := 1; i < len(o.samples); i++ {
		sorted = vpAnd(sorted, o.samples[i-1].t < o.samples[i].t)
	}
	vpAssert(sorted, "strictly sorted")
	// every pre sample is still there with its value; the new one is there iff it was new
	q := vpInt64() // skolem timestamp
	var preHas, postHas bool
	var preV, postV uint64
	for i := range pre {
		preHas = vpOr(preHas, pre[i].t == q)
		preV = vpIte(pre[i].t == q, math.Float64bits(pre[i].f), preV)
	}
	for i := range o.samples {
		postHas = vpOr(postHas, o.samples[i].t == q)
		postV = vpIte(o.samples[i].t == q, math.Float64bits(o.samples[i].f), postV)
	}
	wantHas := vpOr(preHas, q == t)
	wantV := vpIte(preHas, preV, vpIte(q == t, math.Float64bits(v), 0))
	vpAssert(postHas == wantHas, "timestamp set is pre plus t")
	vpAssert(vpImplies(postHas, postV == wantV), "values: earlier sample wins, others unchanged")
	vpReach("end")
}
