//vp:property C02
//vp:pkg ./tsdb
//vp:roots ./storage ./model/histogram ./model/labels ./model/value ./tsdb/chunkenc ./tsdb/chunks ./tsdb/record ./util/zeropool
//vp:bounds (the V1 appender headAppender.Append / AppendHistogram with DiscardOutOfOrder is checked the same way) admission through the V2 appender (headAppenderV2.Append -> appendFloat / appendHistogram / appendFloatHistogram, the stale-marker conversion into the batch's histogram type, getCurrentBatch) for one existing series with an arbitrary newest in-order sample (float / histogram / float histogram at any int64 time): a first append of a case-split kind (none, float, histogram, float histogram) at the series' newest time + 1, then the append under test - any int64 timestamp, a float of any bit pattern (staleness marker included), a histogram or a float histogram - with RejectOutOfOrder symbolic, any head max time, minimum valid time and out-of-order window >= 0: the result is the documented class (accepted, duplicate, too old, out of bounds, out of order), an out-of-order sample is rejected at once when the caller asked for it, and an accepted sample is queued exactly once with its timestamp
//vp:assume no exemplars, metadata or zero-sample start timestamps; head metrics are no-op stubs in the engine; headMaxt >= MinInt64 + window
package tsdb

import (
	"math"

	"github.com/prometheus/prometheus/model/histogram"
	"github.com/prometheus/prometheus/model/labels"
	"github.com/prometheus/prometheus/storage"
	"github.com/prometheus/prometheus/tsdb/chunks"
)

func vpH_C02_appender_v2_admission() {
	lset := labels.FromStrings("a", "b")
	state := vpShape("state", 1, 3)
	lastT := vpInt64()
	vpAssume(lastT < math.MaxInt64-2)
	s := vpXSeries(state, lastT, 1.5, 3, 2.5)
	s.ref = 1
	s.lset = lset
	if s.lastHistogramValue != nil {
		s.lastHistogramValue.ZeroCount = 3 // valid integer histogram: the buckets (here only the zero bucket) add up to the count
	}
	h := &Head{opts: &HeadOptions{}}
	h.metrics = newHeadMetrics(h, nil)
	h.series = newStripeSeries(1, &noopSeriesLifecycleCallback{})
	h.series.series[0][s.ref] = s
	headMaxt, minValid, window := vpInt64(), vpInt64(), vpInt64()
	vpAssume(window >= 0)
	vpAssume(headMaxt >= math.MinInt64+window)
	a := &headAppenderV2{headAppenderBase{head: h, minValidTime: minValid, headMaxt: headMaxt, oooTimeWindow: window,
		typesInBatch: map[chunks.HeadSeriesRef]sampleType{}}}

	// an earlier append of this appender (decides the batch's sample type for the series)
	firstKind := vpShape("first", 0, 3)
	queued := 0
	if firstKind != 0 {
		var err error
		switch firstKind {
		case 1:
			_, err = a.Append(1, lset, 0, lastT+1, 7, nil, nil, storage.AOptions{})
		case 2:
			_, err = a.Append(1, lset, 0, lastT+1, 0, &histogram.Histogram{Count: 9, ZeroCount: 9, Sum: 3}, nil, storage.AOptions{})
		case 3:
			_, err = a.Append(1, lset, 0, lastT+1, 0, nil, &histogram.FloatHistogram{Count: 9, Sum: 3}, storage.AOptions{})
		}
		if err == nil {
			queued = 1
		}
	}

	t := vpInt64()
	reject := vpBool()
	kind := vpShape("kind", 1, 3)
	v := vpFloat64()
	var err error
	sameAsLast := false
	effKind := kind
	switch kind {
	case 1:
		_, err = a.Append(1, lset, 0, t, v, nil, nil, storage.AOptions{RejectOutOfOrder: reject})
		stale := math.Float64bits(v) == 0x7ff0000000000002
		if stale && firstKind == 2 && queued == 1 {
			effKind = 2 // converted into a histogram staleness marker
		} else if stale && firstKind == 3 && queued == 1 {
			effKind = 3
		}
		switch effKind {
		case 1:
			sameAsLast = state == 1 && math.Float64bits(v) == math.Float64bits(1.5)
		}
	case 2:
		_, err = a.Append(1, lset, 0, t, 0, &histogram.Histogram{Count: 3, ZeroCount: 3, Sum: 2.5}, nil, storage.AOptions{RejectOutOfOrder: reject})
		sameAsLast = state == 2
	case 3:
		_, err = a.Append(1, lset, 0, t, 0, nil, &histogram.FloatHistogram{Count: 3, Sum: 2.5}, storage.AOptions{RejectOutOfOrder: reject})
		sameAsLast = state == 3
	}
	wantOOO, wantClass := vpXRef(false, t, lastT, headMaxt, minValid, window, sameAsLast)
	if window == 0 && t < minValid {
		wantOOO, wantClass = false, vpXOOB // fail-fast path
	}
	if wantOOO && reject {
		wantClass = vpXOOO
	}
	got := vpXClass(err)
	vpObserve("class", got)
	vpAssert(got == wantClass, "error class matches the documented ordering rules (and the caller's out-of-order rejection)")
	// the accepted sample is queued exactly once, in the list of its (effective) type
	nf, nh, nfh := 0, 0, 0
	var lastQueuedT int64
	for _, b := range a.batches {
		nf += len(b.floats)
		nh += len(b.histograms)
		nfh += len(b.floatHistograms)
		for _, x := range b.floats {
			lastQueuedT = x.T
		}
	}
	wantTotal := queued
	if got == vpXAccept {
		wantTotal++
	}
	vpObserve("queued", nf+nh+nfh)
	vpAssert(nf+nh+nfh == wantTotal, "exactly the accepted samples are queued for commit")
	if got == vpXAccept && effKind == 1 && nf > 0 {
		vpAssert(lastQueuedT == t, "queued with its timestamp")
	}
	if got == vpXAccept {
		wantF, wantH, wantFH := 0, 0, 0
		for _, k := range []int{firstKind * queued, effKind} {
			switch k {
			case 1:
				wantF++
			case 2:
				wantH++
			case 3:
				wantFH++
			}
		}
		vpAssert(nf == wantF && nh == wantH && nfh == wantFH, "queued under its own sample type (a float staleness marker follows the batch's histogram type)")
	}
	vpReach("end")
}

// The same for the V1 appender (Append / AppendHistogram with SetOptions(DiscardOutOfOrder)).
func vpH_C02_appender_v1_admission() {
	lset := labels.FromStrings("a", "b")
	state := vpShape("state", 1, 3)
	lastT := vpInt64()
	vpAssume(lastT < math.MaxInt64-2)
	s := vpXSeries(state, lastT, 1.5, 3, 2.5)
	s.ref = 1
	s.lset = lset
	if s.lastHistogramValue != nil {
		s.lastHistogramValue.ZeroCount = 3 // valid integer histogram: the buckets (here only the zero bucket) add up to the count
	}
	h := &Head{opts: &HeadOptions{}}
	h.metrics = newHeadMetrics(h, nil)
	h.series = newStripeSeries(1, &noopSeriesLifecycleCallback{})
	h.series.series[0][s.ref] = s
	headMaxt, minValid, window := vpInt64(), vpInt64(), vpInt64()
	vpAssume(window >= 0)
	vpAssume(headMaxt >= math.MinInt64+window)
	a := &headAppender{headAppenderBase: headAppenderBase{head: h, minValidTime: minValid, headMaxt: headMaxt, oooTimeWindow: window,
		typesInBatch: map[chunks.HeadSeriesRef]sampleType{}}}

	// an earlier append of this appender (decides the batch's sample type for the series)
	firstKind := vpShape("first", 0, 3)
	queued := 0
	if firstKind != 0 {
		var err error
		switch firstKind {
		case 1:
			_, err = a.Append(1, lset, lastT+1, 7)
		case 2:
			_, err = a.AppendHistogram(1, lset, lastT+1, &histogram.Histogram{Count: 9, ZeroCount: 9, Sum: 3}, nil)
		case 3:
			_, err = a.AppendHistogram(1, lset, lastT+1, nil, &histogram.FloatHistogram{Count: 9, Sum: 3})
		}
		if err == nil {
			queued = 1
		}
	}

	t := vpInt64()
	reject := vpBool()
	a.SetOptions(&storage.AppendOptions{DiscardOutOfOrder: reject})
	kind := vpShape("kind", 1, 3)
	v := vpFloat64()
	var err error
	sameAsLast := false
	effKind := kind
	switch kind {
	case 1:
		_, err = a.Append(1, lset, t, v)
		stale := math.Float64bits(v) == 0x7ff0000000000002
		if stale && firstKind == 2 && queued == 1 {
			effKind = 2 // converted into a histogram staleness marker
		} else if stale && firstKind == 3 && queued == 1 {
			effKind = 3
		}
		switch effKind {
		case 1:
			sameAsLast = state == 1 && math.Float64bits(v) == math.Float64bits(1.5)
		}
	case 2:
		_, err = a.AppendHistogram(1, lset, t, &histogram.Histogram{Count: 3, ZeroCount: 3, Sum: 2.5}, nil)
		sameAsLast = state == 2
	case 3:
		_, err = a.AppendHistogram(1, lset, t, nil, &histogram.FloatHistogram{Count: 3, Sum: 2.5})
		sameAsLast = state == 3
	}
	wantOOO, wantClass := vpXRef(false, t, lastT, headMaxt, minValid, window, sameAsLast)
	if window == 0 && t < minValid {
		wantOOO, wantClass = false, vpXOOB // fail-fast path
	}
	if wantOOO && reject && wantClass == vpXAccept { // V1: an otherwise acceptable out-of-order sample is discarded on request
		wantClass = vpXOOO
	}
	got := vpXClass(err)
	vpObserve("class", got)
	vpAssert(got == wantClass, "error class matches the documented ordering rules (and the caller's out-of-order rejection)")
	// the accepted sample is queued exactly once, in the list of its (effective) type
	nf, nh, nfh := 0, 0, 0
	var lastQueuedT int64
	for _, b := range a.batches {
		nf += len(b.floats)
		nh += len(b.histograms)
		nfh += len(b.floatHistograms)
		for _, x := range b.floats {
			lastQueuedT = x.T
		}
	}
	wantTotal := queued
	if got == vpXAccept {
		wantTotal++
	}
	vpObserve("queued", nf+nh+nfh)
	vpAssert(nf+nh+nfh == wantTotal, "exactly the accepted samples are queued for commit")
	if got == vpXAccept && effKind == 1 && nf > 0 {
		vpAssert(lastQueuedT == t, "queued with its timestamp")
	}
	if got == vpXAccept {
		wantF, wantH, wantFH := 0, 0, 0
		for _, k := range []int{firstKind * queued, effKind} {
			switch k {
			case 1:
				wantF++
			case 2:
				wantH++
			case 3:
				wantFH++
			}
		}
		vpAssert(nf == wantF && nh == wantH && nfh == wantFH, "queued under its own sample type (a float staleness marker follows the batch's histogram type)")
	}
	vpReach("end")
}
