//vp:property C09
//vp:pkg ./tsdb
//vp:roots ./tsdb/chunks
//vp:intercept (*github.com/prometheus/prometheus/tsdb/chunks.ChunkDiskMapper).Size => vpXCdmSize
//vp:bounds deletableBlocks/BeyondTimeRetention/BeyondSizeRetention on n<=3 blocks, thorough also n=4 with the Deletable flags fixed false, with symbolic MaxTime (|t|<2^62, so that differences of block times do not wrap int64), sizes in [0,2^50), Deletable flags, retention duration >= 0, MaxBytes any int64 < 2^60, head+WAL size in [0,2^40]; percentage-based limit not covered
//vp:assume the size of WAL, out-of-order WAL and head-chunk files is one arbitrary value in [0,2^40] (engine: ChunkDiskMapper.Size intercepted; native: a sparse file of that size in a real head-chunks directory)
package tsdb

import (
	"os"
	"path/filepath"

	"github.com/oklog/ulid/v2"
	"github.com/prometheus/client_golang/prometheus"

	"github.com/prometheus/prometheus/tsdb/chunks"
)

var vpXHeadSize int64

func vpXCdmSize(cdm *chunks.ChunkDiskMapper) (int64, error) { return vpXHeadSize, nil }

func vpH_C09_retention_time_size() {
	hi := 3
	if vpThorough() {
		hi = 4
	}
	n := vpShape("n", 1, hi)
	blocks := make([]*Block, n)
	orig := make([]*Block, n)
	for i := range blocks {
		b := &Block{}
		b.meta.ULID = ulid.ULID{byte(i + 1)}
		b.meta.MaxTime = vpInt64()
		vpAssume(vpAnd(b.meta.MaxTime > -(1<<62), b.meta.MaxTime < 1<<62)) // differences of two block times do not wrap
		b.meta.MinTime = vpInt64() // nested / overlapping layouts allowed: only MinTime < MaxTime
		vpAssume(vpAnd(b.meta.MinTime > -(1<<62), b.meta.MinTime < b.meta.MaxTime))
		b.numBytesChunks = vpInt64()
		vpAssume(vpAnd(b.numBytesChunks >= 0, b.numBytesChunks < 1<<50))
		if n < 4 {
			b.meta.Compaction.Deletable = vpBool()
		} // n = 4 (thorough): flags fixed false, the flag is covered for n <= 3
		blocks[i], orig[i] = b, b
	}
	ret := vpInt64()
	vpAssume(ret >= 0)
	maxBytes := vpInt64()
	vpAssume(maxBytes < 1<<60)
	vpXHeadSize = vpInt64()
	vpAssume(vpAnd(vpXHeadSize >= 0, vpXHeadSize <= 1<<40))

	head := &Head{}
	var dir string
	vpNative(func() {
		var err error
		dir, err = os.MkdirTemp("", "vpc09")
		if err != nil {
			panic(err)
		}
		cdm, err := chunks.NewChunkDiskMapper(nil, dir, nil, chunks.DefaultWriteBufferSize, chunks.DefaultWriteQueueSize)
		if err != nil {
			panic(err)
		}
		f, err := os.Create(filepath.Join(dir, "vp_pad"))
		if err != nil {
			panic(err)
		}
		if err := f.Truncate(vpXHeadSize); err != nil {
			panic(err)
		}
		f.Close()
		head.chunkDiskMapper = cdm
	})
	db := &DB{opts: &Options{RetentionDuration: ret, MaxBytes: maxBytes}, head: head,
		metrics: &dbMetrics{
			timeRetentionCount: prometheus.NewCounter(prometheus.CounterOpts{Name: "a"}),
			sizeRetentionCount: prometheus.NewCounter(prometheus.CounterOpts{Name: "b"}),
		}}

	del := deletableBlocks(db, blocks)

	vpNative(func() {
		head.chunkDiskMapper.Close()
		os.RemoveAll(dir)
	})

	// the slice was sorted newest first, as a permutation of the input
	sorted := true
	for i := 1; i < n; i++ {
		sorted = vpAnd(sorted, blocks[i-1].meta.MaxTime >= blocks[i].meta.MaxTime)
	}
	vpAssert(sorted, "blocks considered newest first")
	for _, o := range orig {
		cnt := 0
		for _, b := range blocks {
			if b == o {
				cnt++
			}
		}
		vpAssert(cnt == 1, "permutation")
	}
	newest := blocks[0].meta.MaxTime
	cum := vpXHeadSize
	for i, b := range blocks {
		cum += b.numBytesChunks
		timeDel := vpAnd(ret != 0, newest-b.meta.MaxTime >= ret)
		sizeDel := vpAnd(maxBytes > 0, cum > maxBytes)
		want := vpOr(b.meta.Compaction.Deletable, vpOr(timeDel, sizeDel))
		_, got := del[b.meta.ULID]
		vpObserve("del", got)
		vpAssert(got == want, "deleted exactly when flagged deletable, time-expired or beyond the size limit")
		// never delete a block strictly newer than a retained one (flag aside)
		for j := 0; j < i; j++ {
			_, dj := del[blocks[j].meta.ULID]
			vpAssert(vpImplies(vpAnd(dj, !blocks[j].meta.Compaction.Deletable), vpOr(got, blocks[j].meta.MaxTime == b.meta.MaxTime)), "no newer block deleted while an older one is retained")
		}
	}
	vpReach("end")
}
