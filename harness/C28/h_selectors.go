//vp:property C28
//vp:pkg ./promql
//vp:roots ./storage ./tsdb/chunkenc ./tsdb/chunks ./model/value ./model/histogram ./util/stats ./util/zeropool
//vp:bounds instant selector (evaluator.vectorSelectorSingle over storage.MemoizedSeriesIterator) and range selector (evaluator.matrixIterSlice over storage.BufferedSeriesIterator and its sample ring): one series of <=2 float samples (thorough 3) with symbolic strictly increasing timestamps |t|<=2^40 and arbitrary value bits (staleness markers included), lookback/range in [1,2^40], offset |o|<=2^40, start |s|<=2^40, step in [1,2^40], evaluated at 2 (thorough 3) consecutive steps on one shared iterator
//vp:assume timestamps of a series strictly increase; evaluation times increase by a positive step (range evaluation)
package promql

import (
	"math"

	"github.com/prometheus/prometheus/model/histogram"
	"github.com/prometheus/prometheus/storage"
	"github.com/prometheus/prometheus/tsdb/chunkenc"
	"github.com/prometheus/prometheus/tsdb/chunks"
)

type vpXSmp struct {
	t int64
	f float64
}

func (s vpXSmp) T() int64                      { return s.t }
func (s vpXSmp) ST() int64                     { return 0 }
func (s vpXSmp) F() float64                    { return s.f }
func (s vpXSmp) H() *histogram.Histogram       { return nil }
func (s vpXSmp) FH() *histogram.FloatHistogram { return nil }
func (s vpXSmp) Type() chunkenc.ValueType      { return chunkenc.ValFloat }
func (s vpXSmp) Copy() chunks.Sample           { return s }

type vpXSmps []chunks.Sample

func (s vpXSmps) Get(i int) chunks.Sample { return s[i] }
func (s vpXSmps) Len() int                { return len(s) }

const vpXStale = uint64(0x7ff0000000000002)

func vpXSeries() ([]vpXSmp, vpXSmps) {
	hi := 2
	if vpThorough() {
		hi = 3
	}
	n := vpShape("n", 0, hi)
	ss := make([]vpXSmp, n)
	cs := make(vpXSmps, n)
	for i := range ss {
		ss[i] = vpXSmp{t: vpInt64(), f: vpFloat64()}
		vpAssume(vpAnd(ss[i].t >= -(1<<40), ss[i].t <= 1<<40))
		if i > 0 {
			vpAssume(ss[i-1].t < ss[i].t)
		}
		cs[i] = ss[i]
	}
	return ss, cs
}

func vpXSteps() int64 {
	if vpThorough() {
		return 3
	}
	return 2
}

func vpXBounded(x int64, lo, hi int64) int64 {
	vpAssume(vpAnd(x >= lo, x <= hi))
	return x
}

// At every step the range selector returns exactly the non-stale samples with mint < t <= maxt, in order,
// also when the previous step's slice is passed back in.
func vpH_C28_matrixSlice_steps() {
	ss, cs := vpXSeries()
	rangeMs := vpXBounded(vpInt64(), 1, 1<<40)
	offset := vpXBounded(vpInt64(), -(1 << 40), 1<<40)
	start := vpXBounded(vpInt64(), -(1 << 40), 1<<40)
	step := vpXBounded(vpInt64(), 1, 1<<40)
	ev := &evaluator{maxSamples: 1 << 30}
	it := storage.NewBuffer(rangeMs)
	it.Reset(storage.NewListSeriesIterator(cs))
	var floats []FPoint
	var hists []HPoint
	for k := int64(0); k < vpXSteps(); k++ {
		ts := start + k*step
		maxt := ts - offset
		mint := maxt - rangeMs
		floats, hists, _ = ev.matrixIterSlice(it, mint, maxt, floats, hists, nil)
		vpObserve("n", len(floats))
		vpAssert(len(hists) == 0, "no histograms")
		for i, p := range floats {
			if i > 0 {
				vpAssert(floats[i-1].T < p.T, "points in time order")
			}
			member := false
			for _, s := range ss {
				member = vpOr(member, vpAnd(vpAnd(s.t == p.T, math.Float64bits(s.f) == math.Float64bits(p.F)), vpAnd(vpAnd(s.t > mint, s.t <= maxt), math.Float64bits(s.f) != vpXStale)))
			}
			vpAssert(member, "every point is a non-stale sample inside (mint, maxt]")
		}
		for _, s := range ss {
			present := false
			for _, p := range floats {
				present = vpOr(present, p.T == s.t)
			}
			want := vpAnd(vpAnd(s.t > mint, s.t <= maxt), math.Float64bits(s.f) != vpXStale)
			vpAssert(vpImplies(want, present), "no non-stale sample inside (mint, maxt] is lost")
		}
	}
	vpReach("end")
}
