//vp:property C28
//vp:pkg ./promql
//vp:roots ./storage ./tsdb/chunkenc ./tsdb/chunks ./model/value ./model/histogram ./util/stats ./util/zeropool
//vp:bounds instant selector: lookback and offset are arbitrary time.Duration values (lookback in [1ms, 2^60ns], |offset| <= 2^60ns); their millisecond values are obtained with the engine's own durationMilliseconds
package promql

import (
	"math"
	"time"

	"github.com/prometheus/prometheus/storage"
)

// At every step the instant selector returns the latest sample with t in (ref-lookback, ref], ref = ts-offset,
// unless there is none or it is a staleness marker - also when one iterator is reused across steps.
func vpH_C28_vectorSelector_steps() {
	ss, cs := vpXSeries()
	lookbackD := time.Duration(vpXBounded(vpInt64(), 1000000, 1<<60))
	offsetD := time.Duration(vpXBounded(vpInt64(), -(1 << 60), 1<<60))
	lookback := durationMilliseconds(lookbackD)
	offset := durationMilliseconds(offsetD)
	start := vpXBounded(vpInt64(), -(1 << 40), 1<<40)
	step := vpXBounded(vpInt64(), 1, 1<<40)
	ev := &evaluator{lookbackDelta: lookbackD, maxSamples: 1 << 30}
	delta := lookback
	if vpShape("delta", 0, 1) == 1 {
		delta = lookback - 1 // what the engine passes when the lookback is exclusive of its left edge
	}
	shared := storage.NewMemoizedIterator(storage.NewListSeriesIterator(cs), delta)
	for k := int64(0); k < vpXSteps(); k++ {
		ts := start + k*step
		_, gt, gv, _, gok := ev.vectorSelectorSingle(shared, offsetD, ts)
		ref := ts - offset
		wok := false
		var wt int64
		var wv uint64
		for _, s := range ss {
			in := vpAnd(s.t > ref-lookback, s.t <= ref)
			wok = vpOr(wok, in)
			wt = vpIte(in, s.t, wt)
			wv = vpIte(in, math.Float64bits(s.f), wv)
		}
		wok = vpAnd(wok, wv != vpXStale)
		vpObserve("ok", gok)
		vpObserve("t", gt)
		vpAssert(gok == wok, "sample present iff a non-stale sample lies in the lookback window")
		vpAssert(vpImplies(wok, vpAnd(gt == wt, math.Float64bits(gv) == wv)), "the latest sample of the window is returned")
	}
	vpReach("end")
}

