//vp:property C28
//vp:pkg ./storage
//vp:roots ./tsdb/chunkenc ./tsdb/chunks ./model/histogram
//vp:bounds the sample ring behind range selectors (storage.sampleRing.addF / addF with growth by doubling and window eviction, SampleRingIterator): inductive step from an arbitrary ring state - float buffer of 4 slots, any first position, fill 0..4, strictly increasing timestamps all inside the window of the newest one - one add of a newer sample with an arbitrary non-negative window; the ring then holds exactly the old samples not older than t_new - delta followed by the new one, in order, values bit for bit
//vp:assume pre-state invariant: timestamps strictly increase in ring order and every stored sample is within delta of the newest (what addF maintains); |t| < 2^62 so that t - delta does not wrap
package storage

import (
	"math"

	"github.com/prometheus/prometheus/model/histogram"
	"github.com/prometheus/prometheus/tsdb/chunkenc"
	"github.com/prometheus/prometheus/tsdb/chunks"
)

func vpH_C28_sample_ring_add_step() {
	delta := vpInt64()
	vpAssume(vpAnd(delta >= 0, delta < 1<<62))
	r := newSampleRing(delta, 4, chunkenc.ValFloat)
	l := vpShape("fill", 0, 4)
	type fs struct {
		t int64
		v float64
	}
	var old []fs
	if l > 0 {
		f := vpShape("first", 0, 3)
		r.f, r.l, r.i, r.bufInUse = f, l, (f+l-1)%4, fBuf
		for k := 0; k < l; k++ {
			s := fs{vpInt64(), vpFloat64()}
			vpAssume(vpAnd(s.t > -(1<<62), s.t < 1<<62))
			if k > 0 {
				vpAssume(old[k-1].t < s.t)
			}
			old = append(old, s)
			r.fBuf[(f+k)%4] = fSample{t: s.t, f: s.v}
		}
		vpAssume(old[0].t >= old[l-1].t-delta) // nothing in the ring is outside the window of the newest sample
	}
	n := fs{vpInt64(), vpFloat64()}
	vpAssume(vpAnd(n.t > -(1<<62), n.t < 1<<62))
	if l > 0 {
		vpAssume(n.t > old[l-1].t)
	}
	r.addF(fSample{t: n.t, f: n.v})
	var want []fs
	for _, s := range old {
		if s.t >= n.t-delta {
			want = append(want, s)
		}
	}
	want = append(want, n)
	it := r.iterator()
	k := 0
	for it.Next() == chunkenc.ValFloat {
		vpAssert(k < len(want), "no extra sample in the window")
		if k >= len(want) {
			return
		}
		t, v := it.At()
		vpObserve("t", t)
		vpAssert(t == want[k].t && math.Float64bits(v) == math.Float64bits(want[k].v), "the window holds the samples not older than t - delta, in order, unchanged")
		k++
	}
	vpAssert(k == len(want), "no sample of the window is lost")
	vpAssert(r.l == len(want) && r.f >= 0 && r.f < len(r.fBuf) && r.i >= 0 && r.i < len(r.fBuf), "ring bookkeeping consistent")
	vpReach("end")
}

// Shrinking the window evicts exactly the samples older than newest - delta; nthLast(n) is the n-th most recent sample.
func vpH_C28_sample_ring_reduce_delta() {
	delta := vpInt64()
	vpAssume(vpAnd(delta >= 0, delta < 1<<62))
	r := newSampleRing(delta, 4, chunkenc.ValFloat)
	l := vpShape("fill", 1, 4)
	f := vpShape("first", 0, 3)
	r.f, r.l, r.i, r.bufInUse = f, l, (f+l-1)%4, fBuf
	ts := make([]int64, l)
	for k := 0; k < l; k++ {
		ts[k] = vpInt64()
		vpAssume(vpAnd(ts[k] > -(1<<62), ts[k] < 1<<62))
		if k > 0 {
			vpAssume(ts[k-1] < ts[k])
		}
		r.fBuf[(f+k)%4] = fSample{t: ts[k], f: float64(k)}
	}
	vpAssume(ts[0] >= ts[l-1]-delta)
	d2 := vpInt64()
	vpAssume(d2 >= 0)
	ok := r.reduceDelta(d2)
	vpObserve("ok", ok)
	vpAssert(ok == (d2 <= delta), "the window can only shrink")
	var want []int64
	for _, t := range ts {
		if !ok || t >= ts[l-1]-d2 {
			want = append(want, t)
		}
	}
	vpAssert(r.l == len(want), "exactly the samples older than newest - delta are evicted")
	if r.l != len(want) {
		return
	}
	for n := 1; n <= len(want); n++ {
		s, found := r.nthLast(n)
		vpAssert(found && s.T() == want[len(want)-n], "nthLast(n) is the n-th most recent sample")
	}
	_, found := r.nthLast(len(want) + 1)
	vpAssert(!found, "nothing beyond the oldest sample")
	vpReach("end")
}

// The same step for the other three copies of the ring code (integer-histogram, float-histogram and
// mixed-sample buffers): timestamps only.
func vpH_C28_sample_ring_add_step_kinds() {
	kind := vpShape("kind", 1, 3) // 1 histograms, 2 float histograms, 3 mixed (interface buffer)
	delta := vpInt64()
	vpAssume(vpAnd(delta >= 0, delta < 1<<62))
	r := newSampleRing(delta, 0, chunkenc.ValNone)
	l := vpShape("fill", 1, 4)
	f := vpShape("first", 0, 3)
	mk := func(k int, t int64) chunks.Sample {
		switch {
		case kind == 1 || (kind == 3 && k%2 == 1):
			return hSample{t: t, h: &histogram.Histogram{Count: uint64(k)}}
		case kind == 2:
			return fhSample{t: t, fh: &histogram.FloatHistogram{Count: float64(k)}}
		}
		return fSample{t: t, f: float64(k)}
	}
	switch kind {
	case 1:
		r.hBuf, r.bufInUse = make([]hSample, 4), hBuf
	case 2:
		r.fhBuf, r.bufInUse = make([]fhSample, 4), fhBuf
	case 3:
		r.iBuf, r.bufInUse = make([]chunks.Sample, 4), iBuf
	}
	r.f, r.l, r.i = f, l, (f+l-1)%4
	ts := make([]int64, l)
	for k := 0; k < l; k++ {
		ts[k] = vpInt64()
		vpAssume(vpAnd(ts[k] > -(1<<62), ts[k] < 1<<62))
		if k > 0 {
			vpAssume(ts[k-1] < ts[k])
		}
		s := mk(k, ts[k])
		switch kind {
		case 1:
			r.hBuf[(f+k)%4] = s.(hSample)
		case 2:
			r.fhBuf[(f+k)%4] = s.(fhSample)
		case 3:
			r.iBuf[(f+k)%4] = s
		}
	}
	vpAssume(ts[0] >= ts[l-1]-delta)
	nt := vpInt64()
	vpAssume(vpAnd(nt > ts[l-1], nt < 1<<62))
	r.add(mk(l, nt))
	var want []int64
	for _, t := range ts {
		if t >= nt-delta {
			want = append(want, t)
		}
	}
	want = append(want, nt)
	it := r.iterator()
	k := 0
	for it.Next() != chunkenc.ValNone {
		vpAssert(k < len(want), "no extra sample in the window")
		if k >= len(want) {
			return
		}
		vpObserve("t", it.AtT())
		vpAssert(it.AtT() == want[k], "the window holds the samples not older than t - delta, in order")
		k++
	}
	vpAssert(k == len(want), "no sample of the window is lost")
	vpReach("end")
}
