//vp:property C28
//vp:pkg ./promql
//vp:roots ./storage ./tsdb/chunkenc ./tsdb/chunks ./model/value ./model/histogram ./util/stats ./util/zeropool
//vp:bounds instant selector over a series mixing float samples and native (float) histogram samples: <=2 samples (thorough 3), each a float with arbitrary value bits or a histogram with arbitrary sum bits (staleness markers of both kinds included), timestamps, lookback, offset, start, step as in the float harness, 2 (thorough 3) consecutive steps on one shared iterator
package promql

import (
	"math"
	"time"

	"github.com/prometheus/prometheus/model/histogram"
	"github.com/prometheus/prometheus/storage"
	"github.com/prometheus/prometheus/tsdb/chunkenc"
	"github.com/prometheus/prometheus/tsdb/chunks"
)

type vpXMix struct {
	t  int64
	f  float64
	fh *histogram.FloatHistogram
}

func (s vpXMix) T() int64                      { return s.t }
func (s vpXMix) ST() int64                     { return 0 }
func (s vpXMix) F() float64                    { return s.f }
func (s vpXMix) H() *histogram.Histogram       { return nil }
func (s vpXMix) FH() *histogram.FloatHistogram { return s.fh }
func (s vpXMix) Type() chunkenc.ValueType {
	if s.fh != nil {
		return chunkenc.ValFloatHistogram
	}
	return chunkenc.ValFloat
}
func (s vpXMix) Copy() chunks.Sample { return s }

// The instant selector returns the latest sample of the lookback window with its own kind and value -
// a float is never reported with a histogram and a histogram is not judged by a float seen earlier.
func vpH_C28_vectorSelector_mixed() {
	hi := 2
	if vpThorough() {
		hi = 3
	}
	n := vpShape("n", 1, hi)
	ss := make([]vpXMix, n)
	cs := make(vpXSmps, n)
	for i := range ss {
		ss[i].t = vpInt64()
		vpAssume(vpAnd(ss[i].t >= -(1<<40), ss[i].t <= 1<<40))
		if i > 0 {
			vpAssume(ss[i-1].t < ss[i].t)
		}
		if vpShape("kind", 0, 1) == 1 {
			ss[i].fh = &histogram.FloatHistogram{Sum: vpFloat64(), Count: 1}
		} else {
			ss[i].f = vpFloat64()
		}
		cs[i] = ss[i]
	}
	lookbackD := time.Duration(vpXBounded(vpInt64(), 1000000, 1<<60))
	offsetD := time.Duration(vpXBounded(vpInt64(), -(1 << 60), 1<<60))
	lookback := durationMilliseconds(lookbackD)
	offset := durationMilliseconds(offsetD)
	start := vpXBounded(vpInt64(), -(1 << 40), 1<<40)
	step := vpXBounded(vpInt64(), 1, 1<<40)
	ev := &evaluator{lookbackDelta: lookbackD, maxSamples: 1 << 30}
	shared := storage.NewMemoizedIterator(storage.NewListSeriesIterator(cs), lookback)
	for k := int64(0); k < vpXSteps(); k++ {
		ts := start + k*step
		_, gt, gv, gh, gok := ev.vectorSelectorSingle(shared, offsetD, ts)
		ref := ts - offset
		wok := false
		var wt int64
		var wbits uint64 // float value bits, or the sum bits of a histogram
		wantH := false
		for _, s := range ss {
			in := vpAnd(s.t > ref-lookback, s.t <= ref)
			wok = vpOr(wok, in)
			wt = vpIte(in, s.t, wt)
			if s.fh != nil {
				wbits = vpIte(in, math.Float64bits(s.fh.Sum), wbits)
				wantH = vpIte(in, true, wantH)
			} else {
				wbits = vpIte(in, math.Float64bits(s.f), wbits)
				wantH = vpIte(in, false, wantH)
			}
		}
		wok = vpAnd(wok, wbits != vpXStale)
		vpObserve("ok", gok)
		vpObserve("t", gt)
		vpAssert(gok == wok, "sample present iff a non-stale sample (of either kind) lies in the lookback window")
		if gok {
			vpAssert(gt == wt, "the latest sample of the window is returned")
			vpAssert((gh != nil) == wantH, "sample kind")
			if gh != nil {
				vpAssert(math.Float64bits(gh.Sum) == wbits, "histogram returned as stored")
			} else {
				vpAssert(math.Float64bits(gv) == wbits, "float value returned as stored")
			}
		}
	}
	vpReach("end")
}
