//vp:property C28
//vp:pkg ./promql
//vp:roots ./storage ./tsdb/chunkenc ./tsdb/chunks ./model/value ./model/histogram ./util/stats ./util/zeropool
//vp:thorough-only vpH_C28_matrixSlice_mixed
//vp:assume the series iterator hands out histograms as chunk iterators do (copied into the caller's buffer or freshly allocated); storage's list iterator returns pointers into its stored samples, which matrixIterSlice then reuses as buffers - first harness version, false alarm
//vp:bounds (the range selector evaluator.matrixIterSlice over storage.BufferedSeriesIterator is checked on such mixed series with values 1.5 or the staleness marker (case split): floats and histograms each exactly the non-stale samples of their kind inside (mint, maxt]) instant selector over a series mixing float samples and native (float) histogram samples: <=2 samples (thorough 3), each a float with arbitrary value bits or a histogram with arbitrary sum bits (staleness markers of both kinds included), timestamps, lookback, offset, start, step as in the float harness, 2 (thorough 3) consecutive steps on one shared iterator
package promql

import (
	"math"
	"time"

	"github.com/prometheus/prometheus/model/histogram"
	"github.com/prometheus/prometheus/storage"
	"github.com/prometheus/prometheus/tsdb/chunkenc"
	"github.com/prometheus/prometheus/tsdb/chunks"
)

type vpXMix struct {
	t  int64
	f  float64
	fh *histogram.FloatHistogram
}

func (s vpXMix) T() int64                      { return s.t }
func (s vpXMix) ST() int64                     { return 0 }
func (s vpXMix) F() float64                    { return s.f }
func (s vpXMix) H() *histogram.Histogram       { return nil }
func (s vpXMix) FH() *histogram.FloatHistogram { return s.fh }
func (s vpXMix) Type() chunkenc.ValueType {
	if s.fh != nil {
		return chunkenc.ValFloatHistogram
	}
	return chunkenc.ValFloat
}
func (s vpXMix) Copy() chunks.Sample { return s }

// vpXCopyIt makes the list iterator hand out histograms the way chunk iterators do: copied into the
// caller's buffer (or freshly allocated), never a pointer into the stored data.
type vpXCopyIt struct{ chunkenc.Iterator }

func (c vpXCopyIt) AtFloatHistogram(fh *histogram.FloatHistogram) (int64, *histogram.FloatHistogram) {
	t, h := c.Iterator.AtFloatHistogram(nil)
	if h == nil {
		return t, nil
	}
	if fh == nil {
		return t, h.Copy()
	}
	h.CopyTo(fh)
	return t, fh
}

// The instant selector returns the latest sample of the lookback window with its own kind and value -
// a float is never reported with a histogram and a histogram is not judged by a float seen earlier.
func vpH_C28_vectorSelector_mixed() {
	hi := 2
	if vpThorough() {
		hi = 3
	}
	n := vpShape("n", 1, hi)
	ss := make([]vpXMix, n)
	cs := make(vpXSmps, n)
	for i := range ss {
		ss[i].t = vpInt64()
		vpAssume(vpAnd(ss[i].t >= -(1<<40), ss[i].t <= 1<<40))
		if i > 0 {
			vpAssume(ss[i-1].t < ss[i].t)
		}
		if vpShape("kind", 0, 1) == 1 {
			ss[i].fh = &histogram.FloatHistogram{Sum: vpFloat64(), Count: 1}
		} else {
			ss[i].f = vpFloat64()
		}
		cs[i] = ss[i]
	}
	lookbackD := time.Duration(vpXBounded(vpInt64(), 1000000, 1<<60))
	offsetD := time.Duration(vpXBounded(vpInt64(), -(1 << 60), 1<<60))
	lookback := durationMilliseconds(lookbackD)
	offset := durationMilliseconds(offsetD)
	start := vpXBounded(vpInt64(), -(1 << 40), 1<<40)
	step := vpXBounded(vpInt64(), 1, 1<<40)
	ev := &evaluator{lookbackDelta: lookbackD, maxSamples: 1 << 30}
	shared := storage.NewMemoizedIterator(vpXCopyIt{storage.NewListSeriesIterator(cs)}, lookback)
	for k := int64(0); k < vpXSteps(); k++ {
		ts := start + k*step
		_, gt, gv, gh, gok := ev.vectorSelectorSingle(shared, offsetD, ts)
		ref := ts - offset
		wok := false
		var wt int64
		var wbits uint64 // float value bits, or the sum bits of a histogram
		wantH := false
		for _, s := range ss {
			in := vpAnd(s.t > ref-lookback, s.t <= ref)
			wok = vpOr(wok, in)
			wt = vpIte(in, s.t, wt)
			if s.fh != nil {
				wbits = vpIte(in, math.Float64bits(s.fh.Sum), wbits)
				wantH = vpIte(in, true, wantH)
			} else {
				wbits = vpIte(in, math.Float64bits(s.f), wbits)
				wantH = vpIte(in, false, wantH)
			}
		}
		wok = vpAnd(wok, wbits != vpXStale)
		vpObserve("ok", gok)
		vpObserve("t", gt)
		vpAssert(gok == wok, "sample present iff a non-stale sample (of either kind) lies in the lookback window")
		if gok {
			vpAssert(gt == wt, "the latest sample of the window is returned")
			vpAssert((gh != nil) == wantH, "sample kind")
			if gh != nil {
				vpAssert(math.Float64bits(gh.Sum) == wbits, "histogram returned as stored")
			} else {
				vpAssert(math.Float64bits(gv) == wbits, "float value returned as stored")
			}
		}
	}
	vpReach("end")
}

// Range selector over a series mixing floats and native histograms: floats and histograms are
// returned in their own lists, each exactly the non-stale samples of its kind inside (mint, maxt].
func vpH_C28_matrixSlice_mixed() {
	hi := 2
	if vpThorough() {
		hi = 3
	}
	n := vpShape("n", 1, hi)
	ss := make([]vpXMix, n)
	cs := make(vpXSmps, n)
	for i := range ss {
		ss[i].t = vpInt64()
		vpAssume(vpAnd(ss[i].t >= -(1<<40), ss[i].t <= 1<<40))
		if i > 0 {
			vpAssume(ss[i-1].t < ss[i].t)
		}
		val := 1.5 // the only value-dependent behaviour of the selector is the staleness marker: two concrete values
		if vpShape("stale", 0, 1) == 1 {
			val = math.Float64frombits(vpXStale)
		}
		if vpShape("kind", 0, 1) == 1 {
			ss[i].fh = &histogram.FloatHistogram{Sum: val, Count: 1}
		} else {
			ss[i].f = val
		}
		cs[i] = ss[i]
	}
	rangeMs := vpXBounded(vpInt64(), 1, 1<<40)
	offset := vpXBounded(vpInt64(), -(1 << 40), 1<<40)
	start := vpXBounded(vpInt64(), -(1 << 40), 1<<40)
	step := vpXBounded(vpInt64(), 1, 1<<40)
	ev := &evaluator{maxSamples: 1 << 30}
	it := storage.NewBuffer(rangeMs)
	it.Reset(vpXCopyIt{storage.NewListSeriesIterator(cs)})
	var floats []FPoint
	var hists []HPoint
	for k := int64(0); k < vpXSteps(); k++ {
		ts := start + k*step
		maxt := ts - offset
		mint := maxt - rangeMs
		floats, hists, _ = ev.matrixIterSlice(it, mint, maxt, floats, hists, nil)
		vpObserve("nf", len(floats))
		vpObserve("nh", len(hists))
		for i, p := range floats {
			if i > 0 {
				vpAssert(floats[i-1].T < p.T, "float points in time order")
			}
			member := false
			for _, s := range ss {
				if s.fh == nil {
					member = vpOr(member, vpAnd(vpAnd(s.t == p.T, math.Float64bits(s.f) == math.Float64bits(p.F)), vpAnd(vpAnd(s.t > mint, s.t <= maxt), math.Float64bits(s.f) != vpXStale)))
				}
			}
			vpAssert(member, "every float point is a non-stale float sample inside (mint, maxt]")
		}
		for i, p := range hists {
			if i > 0 {
				vpAssert(hists[i-1].T < p.T, "histogram points in time order")
			}
			member := false
			for _, s := range ss {
				if s.fh != nil {
					member = vpOr(member, vpAnd(vpAnd(s.t == p.T, math.Float64bits(s.fh.Sum) == math.Float64bits(p.H.Sum)), vpAnd(vpAnd(s.t > mint, s.t <= maxt), math.Float64bits(s.fh.Sum) != vpXStale)))
				}
			}
			vpAssert(member, "every histogram point is a non-stale histogram sample inside (mint, maxt]")
		}
		for _, s := range ss {
			present := false
			bits := math.Float64bits(s.f)
			if s.fh != nil {
				bits = math.Float64bits(s.fh.Sum)
				for _, p := range hists {
					present = vpOr(present, p.T == s.t)
				}
			} else {
				for _, p := range floats {
					present = vpOr(present, p.T == s.t)
				}
			}
			want := vpAnd(vpAnd(s.t > mint, s.t <= maxt), bits != vpXStale)
			vpAssert(vpImplies(want, present), "no non-stale sample inside (mint, maxt] is lost, whatever its kind")
		}
	}
	vpReach("end")
}
