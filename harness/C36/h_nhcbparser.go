//vp:property C36
//vp:pkg ./model/textparse
//vp:roots ./util/convertnhcb ./model/histogram ./model/labels ./model/exemplar internal/stringslite github.com/prometheus/common/model
//vp:budget wall_s=600
//vp:bounds NHCBParser collect/emit state machine (Next, Series, Histogram, Labels, StartTimestamp, handleClassicHistogramSeries, processNHCB) over a scripted inner parser: a TYPE line, then 1..2 label sets of one classic histogram family, each exposing bucket{le=1}, bucket{le=+Inf}, _count, _sum (concrete small cumulative counts; the second label set optionally without _count or with non-integer counts), an optional float series of another family in between or at the end; per label set an explicit timestamp that is absent or any int64, a start timestamp that is any int64, the sum any float64 bit pattern, optionally one exemplar per bucket series (arbitrary value and timestamp); with and without keep-classic; optionally the first label set is preceded by its exponential native histogram (its classic series then pass through and no custom-bucket histogram is made for it); optionally the first of two label sets is not cumulative (no histogram for it; the following one must be unaffected)
//vp:assume the inner parser is a list-backed script obeying the Parser contract (this is what the text, OpenMetrics and protobuf parsers present); all series of one label set carry the same timestamp (as one exposition does)
package textparse

import (
	"io"
	"math"

	"github.com/prometheus/common/model"

	"github.com/prometheus/prometheus/model/exemplar"
	"github.com/prometheus/prometheus/model/histogram"
	"github.com/prometheus/prometheus/model/labels"
)

type vpXEnt struct {
	kind  Entry
	lset  labels.Labels
	ts    *int64
	v     float64
	st    int64
	tname string
	typ   model.MetricType
	ex    []exemplar.Exemplar
	h     *histogram.Histogram
}

type vpXScript struct {
	ents []vpXEnt
	i    int
	exi  int
}

func (s *vpXScript) cur() *vpXEnt { return &s.ents[s.i-1] }
func (s *vpXScript) Series() ([]byte, *int64, float64) {
	return []byte("x"), s.cur().ts, s.cur().v
}
func (s *vpXScript) Histogram() ([]byte, *int64, *histogram.Histogram, *histogram.FloatHistogram) {
	return []byte("x"), s.cur().ts, s.cur().h, nil
}
func (s *vpXScript) Help() ([]byte, []byte)           { return nil, nil }
func (s *vpXScript) Type() ([]byte, model.MetricType) { return []byte(s.cur().tname), s.cur().typ }
func (s *vpXScript) Unit() ([]byte, []byte)           { return nil, nil }
func (s *vpXScript) Comment() []byte                  { return nil }
func (s *vpXScript) Labels(l *labels.Labels)          { *l = s.cur().lset }
func (s *vpXScript) Exemplar(ex *exemplar.Exemplar) bool {
	if s.exi >= len(s.cur().ex) {
		return false
	}
	*ex = s.cur().ex[s.exi]
	s.exi++
	return true
}
func (s *vpXScript) StartTimestamp() int64            { return s.cur().st }
func (s *vpXScript) Next() (Entry, error) {
	if s.i >= len(s.ents) {
		return EntryInvalid, io.EOF
	}
	s.i++
	s.exi = 0
	return s.cur().kind, nil
}

type vpXOut struct {
	kind Entry
	lset labels.Labels
	ts   *int64
	v    float64
	st   int64
	h    *histogram.Histogram
	fh   *histogram.FloatHistogram
	ex   []exemplar.Exemplar
}

func vpXExEq(a, b []exemplar.Exemplar) bool {
	if len(a) != len(b) {
		return false
	}
	ok := true
	for i := range a {
		ok = vpAnd(ok, vpAnd(labels.Equal(a[i].Labels, b[i].Labels), vpAnd(math.Float64bits(a[i].Value) == math.Float64bits(b[i].Value), vpAnd(a[i].HasTs == b[i].HasTs, a[i].Ts == b[i].Ts))))
	}
	return ok
}

func vpXTsEq(a, b *int64) bool {
	if a == nil || b == nil {
		return a == nil && b == nil
	}
	return *a == *b
}

func vpH_C36_nhcb_parser_emit() {
	keep := vpShape("keepClassic", 0, 1) == 1
	nsets := vpShape("labelsets", 1, 2)
	other := vpShape("otherSeries", 0, 2) // 0 none, 1 after the first label set, 2 at the end
	withEx := vpShape("exemplars", 0, 1) == 1 // every bucket series carries one exemplar
	expo := vpShape("firstSetHasExponential", 0, 1) == 1 // the first label set also has an exponential native histogram (exposed first)
	broken := !expo && nsets == 2 && vpShape("firstSetNotCumulative", 0, 1) == 1 // the first label set cannot be converted
	var script []vpXEnt
	script = append(script, vpXEnt{kind: EntryType, tname: "h", typ: model.MetricTypeHistogram})
	type set struct {
		ts  *int64
		st  int64
		sum float64
		c1  float64
		c2  float64
		x   string
		ex  []exemplar.Exemplar
		noCount, isFloat bool
	}
	lastVariant := 0 // 0 as the others, 1 without a _count series, 2 with non-integer bucket counts
	if nsets == 2 {
		lastVariant = vpShape("secondSetVariant", 0, 2)
	}
	sets := make([]set, nsets)
	for k := range sets {
		s := &sets[k]
		s.x = []string{"a", "b"}[k]
		if vpBool() {
			t := vpInt64()
			s.ts = &t
		}
		s.st = vpInt64()
		s.sum = vpFloat64()
		s.c1 = float64(1 + k)
		s.c2 = float64(3 + 2*k)
		if broken && k == 0 {
			s.c1 = 7 // le=1 bucket above the +Inf bucket: conversion must fail
		}
		if k == 1 && lastVariant == 1 {
			s.noCount = true
		}
		if k == 1 && lastVariant == 2 {
			s.isFloat = true
			s.c1, s.c2 = 1.5, 5.5
		}
		mk := func(name string, extra ...string) labels.Labels {
			return labels.FromStrings(append([]string{"__name__", name, "x", s.x}, extra...)...)
		}
		if expo && k == 0 {
			script = append(script, vpXEnt{kind: EntryHistogram, lset: labels.FromStrings("__name__", "h", "x", s.x), ts: s.ts, st: s.st,
				h: &histogram.Histogram{Schema: 1, Count: 3, Sum: s.sum, PositiveSpans: []histogram.Span{{Offset: 0, Length: 1}}, PositiveBuckets: []int64{3}}})
		}
		var ex1, ex2 []exemplar.Exemplar
		if withEx {
			ex1 = []exemplar.Exemplar{{Labels: labels.FromStrings("id", "1"), Value: vpFloat64(), HasTs: true, Ts: vpInt64()}}
			ex2 = []exemplar.Exemplar{{Labels: labels.FromStrings("id", "2"), Value: vpFloat64(), HasTs: vpBool(), Ts: vpInt64()}}
			s.ex = append(append(s.ex, ex1...), ex2...)
		}
		script = append(script,
			vpXEnt{kind: EntrySeries, lset: mk("h_bucket", "le", "1"), ts: s.ts, v: s.c1, st: s.st, ex: ex1},
			vpXEnt{kind: EntrySeries, lset: mk("h_bucket", "le", "+Inf"), ts: s.ts, v: s.c2, st: s.st, ex: ex2})
		if !s.noCount {
			script = append(script, vpXEnt{kind: EntrySeries, lset: mk("h_count"), ts: s.ts, v: s.c2, st: s.st})
		}
		script = append(script, vpXEnt{kind: EntrySeries, lset: mk("h_sum"), ts: s.ts, v: s.sum, st: s.st})
		if (other == 1 && k == 0) || (other == 2 && k == nsets-1) {
			var ots *int64
			if vpBool() {
				t := vpInt64()
				ots = &t
			}
			script = append(script,
				vpXEnt{kind: EntryType, tname: "g", typ: model.MetricTypeGauge},
				vpXEnt{kind: EntrySeries, lset: labels.FromStrings("__name__", "g"), ts: ots, v: vpFloat64(), st: 0})
			if k < nsets-1 {
				script = append(script, vpXEnt{kind: EntryType, tname: "h", typ: model.MetricTypeHistogram})
			}
		}
	}
	inner := &vpXScript{ents: script}
	p := NewNHCBParser(inner, labels.NewSymbolTable(), keep, true)

	var out []vpXOut
	for {
		e, err := p.Next()
		if err != nil {
			vpAssert(err == io.EOF, "only EOF ends the stream")
			break
		}
		var o vpXOut
		o.kind = e
		switch e {
		case EntrySeries:
			_, o.ts, o.v = p.Series()
			p.Labels(&o.lset)
			o.st = p.StartTimestamp()
		case EntryHistogram:
			_, o.ts, o.h, o.fh = p.Histogram()
			vpAssert((o.h == nil) != (o.fh == nil), "exactly one of the integer and the float histogram is set")
			p.Labels(&o.lset)
			o.st = p.StartTimestamp()
		}
		if e == EntrySeries || e == EntryHistogram {
			var ex exemplar.Exemplar
			for p.Exemplar(&ex) {
				o.ex = append(o.ex, ex)
			}
			if o.ts != nil { // the pointer is only valid until the next call to Next
				t := *o.ts
				o.ts = &t
			}
			out = append(out, o)
		}
	}

	// expected stream
	j := 0
	next := func() *vpXOut {
		if j < len(out) {
			j++
			return &out[j-1]
		}
		vpAssert(false, "an expected entry is missing")
		return nil
	}
	for _, en := range script {
		if en.kind == EntryHistogram {
			o := next()
			if o == nil {
				return
			}
			vpAssert(o.kind == EntryHistogram && o.h == en.h && labels.Equal(o.lset, en.lset) && vpXTsEq(o.ts, en.ts) && o.st == en.st, "native histogram passes through unchanged")
			continue
		}
		if en.kind != EntrySeries {
			continue
		}
		name := en.lset.Get("__name__")
		inhibited := expo && en.lset.Get("x") == sets[0].x && name != "g"
		isClassic := name != "g" && !inhibited
		// the converted histogram of a label set is emitted once its last classic series has been read, before anything that follows
		if !isClassic || keep {
			o := next()
			if o == nil {
				return
			}
			vpAssert(o.kind == EntrySeries && labels.Equal(o.lset, en.lset), "series passes through unchanged (labels)")
			vpAssert(vpXTsEq(o.ts, en.ts) && math.Float64bits(o.v) == math.Float64bits(en.v), "series passes through unchanged (timestamp, value)")
			vpAssert(vpXExEq(o.ex, en.ex), "series passes through unchanged (exemplars)")
		}
		if name == "h_sum" && !inhibited {
			var s *set
			for k := range sets {
				if sets[k].x == en.lset.Get("x") {
					s = &sets[k]
				}
			}
			if broken && s == &sets[0] {
				continue // no histogram for an exposition that is not cumulative
			}
			o := next()
			if o == nil {
				return
			}
			vpAssert(o.kind == EntryHistogram, "one custom-bucket histogram per classic histogram")
			if o.kind != EntryHistogram {
				return
			}
			vpAssert((o.fh != nil) == s.isFloat && (o.h != nil) == !s.isFloat, "integer counts give an integer histogram, non-integer counts a float histogram")
			if (o.fh != nil) != s.isFloat || (o.h != nil) == s.isFloat {
				return
			}
			vpAssert(labels.Equal(o.lset, labels.FromStrings("__name__", "h", "x", s.x)), "histogram labels")
			vpAssert(vpXTsEq(o.ts, s.ts), "histogram carries the timestamp of its classic series")
			vpAssert(o.st == s.st, "histogram carries the start timestamp of its classic series")
			if s.isFloat {
				vpAssert(o.fh.Count == s.c2 && math.Float64bits(o.fh.Sum) == math.Float64bits(s.sum), "count and sum")
				vpAssert(len(o.fh.CustomValues) == 1 && o.fh.CustomValues[0] == 1, "finite upper bounds become the custom bounds")
				vpAssert(len(o.fh.PositiveBuckets) == 2 && o.fh.PositiveBuckets[0] == s.c1 && o.fh.PositiveBuckets[1] == s.c2-s.c1, "de-cumulated bucket counts")
			} else {
				vpAssert(o.h.Count == uint64(s.c2) && math.Float64bits(o.h.Sum) == math.Float64bits(s.sum), "count and sum")
				vpAssert(len(o.h.CustomValues) == 1 && o.h.CustomValues[0] == 1, "finite upper bounds become the custom bounds")
				vpAssert(len(o.h.PositiveBuckets) == 2 && o.h.PositiveBuckets[0] == int64(s.c1) && o.h.PositiveBuckets[0]+o.h.PositiveBuckets[1] == int64(s.c2-s.c1), "de-cumulated bucket counts")
				vpObserve("count", o.h.Count)
			}
			vpAssert(vpXExEq(o.ex, s.ex), "histogram carries the exemplars of its classic series")
		}
	}
	vpAssert(j == len(out), "nothing else is emitted")
	vpReach("end")
}
