//vp:property C36
//vp:pkg ./util/convertnhcb
//vp:roots ./model/histogram
//vp:bounds TempHistogram.SetBucketCount/SetCount/SetSum/Convert (integer path): up to 2 finite buckets (thorough 3) presented in any order with arbitrary float64 upper bounds (compare-only, any bit pattern except NaN; duplicates included), cumulative counts enumerated concretely as integers 0..6 (increments 0..2), optional +Inf bucket, optional _count, arbitrary sum bits
//vp:assume the overall count (the +Inf bucket or _count) is at least the largest finite bucket count (consistent exposition)
//vp:assume bucket counts are small exact integers (the float/integer decision and de-cumulation then fold to constants); what is symbolic is the order and equality of the bounds and the sum
package convertnhcb

import (
	"math"

	"github.com/prometheus/prometheus/model/histogram"
)

type vpXB struct {
	le float64
	c  float64
}

func vpH_C36_convert_integer() {
	hi := 2
	if vpThorough() {
		hi = 3
	}
	n := vpShape("n", 0, hi)
	in := make([]vpXB, n)
	for i := range in {
		in[i].le = vpFloat64()
		vpAssume(!math.IsNaN(in[i].le))
		vpAssume(!math.IsInf(in[i].le, 1))
		in[i].c = float64(vpShape("c", 0, 4))
	}
	hasInf := vpShape("inf", 0, 1) == 1
	hasCount := vpShape("hascount", 0, 1) == 1
	total := float64(vpShape("total", 0, 5))
	sum := vpFloat64()

	h := NewTempHistogram()
	var setErr error
	for _, b := range in {
		if err := h.SetBucketCount(b.le, b.c); err != nil {
			setErr = err
		}
	}
	if hasInf {
		if err := h.SetBucketCount(math.Inf(1), total); err != nil {
			setErr = err
		}
	}
	if hasCount {
		if err := h.SetCount(total); err != nil {
			setErr = err
		}
	}
	h.SetSum(sum)
	ih, fh, err := h.Convert()

	// reference: sort by bound, first occurrence of a bound wins
	var ref []vpXB
	for _, b := range in {
		pos := 0
		dup := false
		for _, r := range ref {
			if r.le == b.le {
				dup = true
			}
			if r.le < b.le {
				pos++
			}
		}
		if dup {
			continue
		}
		ref = append(ref, vpXB{})
		copy(ref[pos+1:], ref[pos:])
		ref[pos] = b
	}
	cumulative := true
	for i := 1; i < len(ref); i++ {
		if ref[i].c < ref[i-1].c {
			cumulative = false
		}
	}
	last := 0.0
	if len(ref) > 0 {
		last = ref[len(ref)-1].c
	}
	want := total // overall count
	if !hasInf && !hasCount {
		want = last
	}
	// the overall count of a consistent classic histogram is at least its largest bucket count
	// (the property does not speak about inconsistent expositions)
	if hasInf || hasCount {
		vpAssume(total >= last)
	}
	vpObserve("err", err != nil)
	if !cumulative {
		vpAssert(err != nil || setErr != nil, "non-cumulative counts are rejected")
		vpReach("rejected")
		return
	}
	vpAssert(err == nil && setErr == nil, "valid classic histogram converts")
	if err != nil {
		return
	}
	vpAssert(fh == nil && ih != nil, "integer counts give an integer histogram")
	if ih == nil {
		return
	}
	vpAssert(ih.Schema == histogram.CustomBucketsSchema, "custom-bucket schema")
	vpAssert(ih.Count == uint64(want), "count")
	vpAssert(math.Float64bits(ih.Sum) == math.Float64bits(sum), "sum bits")
	vpAssert(len(ih.CustomValues) == len(ref), "one custom bound per finite upper bound")
	if len(ih.CustomValues) != len(ref) {
		return
	}
	for i := range ref {
		vpObserve("bound", ih.CustomValues[i])
		vpAssert(math.Float64bits(ih.CustomValues[i]) == math.Float64bits(ref[i].le) || (ih.CustomValues[i] == 0 && ref[i].le == 0), "custom bounds are the sorted finite upper bounds")
	}
	// decode absolute bucket counts (bucket i = index i; +Inf bucket = index len(ref))
	abs := make([]int64, len(ref)+1)
	idx := 0
	var cur int64
	di := 0
	for _, s := range ih.PositiveSpans {
		idx += int(s.Offset)
		for j := uint32(0); j < s.Length; j++ {
			cur += ih.PositiveBuckets[di]
			di++
			if idx < 0 || idx >= len(abs) {
				vpAssert(false, "bucket index in range")
				return
			}
			abs[idx] = cur
			idx++
		}
	}
	prev := 0.0
	for i := range ref {
		vpAssert(abs[i] == int64(ref[i].c-prev), "de-cumulated bucket count")
		prev = ref[i].c
	}
	vpAssert(abs[len(ref)] == int64(want-prev), "overflow (+Inf) bucket count")
	vpReach("converted")
}
