//vp:property C04
//vp:pkg ./tsdb/wlog
//vp:roots ./util/compression io
//vp:bounds wlog.Reader over a stream of 1..3 fragments whose checksums are right (so that counterexamples replay natively) but whose type bytes are arbitrary in 1..7 (a damaged type byte is not covered by the fragment checksum): payloads of 0..1 arbitrary byte; the records surfaced are exactly those the fragment-sequence rules allow (Full | First Middle* Last), the reader stops with an error at the first fragment that breaks the sequence or has an unknown type, and a log ending inside a record is reported as torn
//vp:assume no compression flags; no page-termination type; the stream is shorter than a page
package wlog

import (
	"bytes"
	"encoding/binary"
	"hash/crc32"
)

func vpH_C04_walReader_fragment_types() {
	nf := vpShape("fragments", 1, 3)
	var stream []byte
	types := make([]recType, nf)
	payloads := make([][]byte, nf)
	for f := 0; f < nf; f++ {
		tb := vpUint8()
		vpAssume(vpAnd(tb >= 1, tb <= 7))
		types[f] = recType(tb)
		pl := make([]byte, vpShape("payload", 0, 1))
		for i := range pl {
			pl[i] = vpByte()
		}
		payloads[f] = pl
		var hdr [recordHeaderSize]byte
		hdr[0] = tb
		binary.BigEndian.PutUint16(hdr[1:], uint16(len(pl)))
		binary.BigEndian.PutUint32(hdr[3:], crc32.Checksum(pl, castagnoliTable))
		stream = append(stream, hdr[:]...)
		stream = append(stream, pl...)
	}
	// reference: the records the sequence rules allow, up to the first violation
	var want [][]byte
	var cur []byte
	inRec := false
	bad := false
	for f := 0; f < nf && !bad; f++ {
		switch types[f] {
		case recFull:
			if inRec {
				bad = true
			} else {
				want = append(want, payloads[f])
			}
		case recFirst:
			if inRec {
				bad = true
			} else {
				inRec, cur = true, append([]byte(nil), payloads[f]...)
			}
		case recMiddle:
			if !inRec {
				bad = true
			} else {
				cur = append(cur, payloads[f]...)
			}
		case recLast:
			if !inRec {
				bad = true
			} else {
				want = append(want, append(cur, payloads[f]...))
				inRec = false
			}
		default:
			bad = true
		}
	}
	torn := !bad && inRec
	r := NewReader(bytes.NewReader(stream))
	var got [][]byte
	for r.Next() {
		got = append(got, append([]byte(nil), r.Record()...))
		if len(got) > 3 {
			break
		}
	}
	vpObserve("records", len(got))
	vpObserve("err", r.Err() != nil)
	vpAssert(len(got) == len(want), "exactly the records the fragment sequence allows, nothing after the first broken fragment")
	if len(got) == len(want) {
		for k := range want {
			vpAssert(len(got[k]) == len(want[k]), "record length")
			if len(got[k]) == len(want[k]) {
				for i := range want[k] {
					vpAssert(got[k][i] == want[k][i], "record bytes")
				}
			}
		}
	}
	vpAssert((r.Err() != nil) == (bad || torn), "a broken sequence, an unknown fragment type or a torn last record is reported as an error")
	vpReach("end")
}
