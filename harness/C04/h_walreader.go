//vp:property C04
//vp:pkg ./tsdb/wlog
//vp:roots ./util/compression io
//vp:bounds wlog.Reader (nextNew, validateRecord, recTypeFromHeader) over an arbitrary byte stream of n bytes, n in {0,1,6,7,8,9,14,16,21} (thorough every n <= 22): room for up to three fragments (two with payloads of a few bytes), cut at many lengths; CRC32 is an uninterpreted function of the exact payload bytes; fragment headers carry no compression flag and a length field <= 20 or invalid (> pageSize-7)
//vp:assume checksums are an uninterpreted function; records flagged as compressed are outside (snappy/zstd decoders are not encoded)
package wlog

import (
	"bytes"
	"encoding/binary"
	"hash/crc32"
)

// Damaged log bytes never yield records that were not written: every record the reader returns is the
// concatenation of checksum-verified fragments lying wholly inside the stream, in stream order, with a
// valid Full | First Middle* Last type sequence; the reader never panics and stops at the first damage.
func vpH_C04_walReader_bytes() {
	var n int
	if vpThorough() {
		n = vpShape("n", 0, 22)
	} else {
		n = []int{0, 1, 6, 7, 8, 9, 14, 16, 21}[vpShape("nsel", 0, 8)]
	}
	b := make([]byte, n)
	for i := range b {
		b[i] = vpByte()
	}
	// bounds on what the headers along the stream may say (walked exactly as the reader frames them):
	// no compression flags, and a length field of at most 20 or an invalid one (> pageSize-7); lengths
	// in between make the reader hit the end of this short stream and are outside the bounds
	{
		pos := 0
		for f := 0; f < 4 && pos+recordHeaderSize <= n; f++ {
			hdr := b[pos]
			vpAssume(hdr&(snappyMask|zstdMask) == 0)
			if recTypeFromHeader(hdr) == recPageTerm {
				break
			}
			length := int(binary.BigEndian.Uint16(b[pos+1:]))
			vpAssume(vpOr(length <= 20, length > pageSize-recordHeaderSize))
			if length > 20 {
				break
			}
			pos += recordHeaderSize + length
		}
	}
	r := NewReader(bytes.NewReader(b))
	pos := 0
	for rec := 0; rec < 2; rec++ {
		var ok bool
		panicked := vpPanics(func() { ok = r.Next() })
		vpAssert(!panicked, "no panic on arbitrary log bytes")
		if panicked {
			return
		}
		vpObserve("ok", ok)
		if !ok {
			vpReach("stopped")
			return
		}
		// re-parse the fragments of this record from pos
		var want []byte
		for i := 0; ; i++ {
			// skip page-termination bytes cannot happen inside a short stream without error; a record starts with a header
			vpAssert(pos+recordHeaderSize <= len(b), "fragment header inside the stream")
			if pos+recordHeaderSize > len(b) {
				return
			}
			hdr := b[pos]
			typ := recTypeFromHeader(hdr)
			length := int(binary.BigEndian.Uint16(b[pos+1:]))
			crc := binary.BigEndian.Uint32(b[pos+3:])
			vpAssert(pos+recordHeaderSize+length <= len(b), "fragment payload inside the stream")
			if pos+recordHeaderSize+length > len(b) {
				return
			}
			payload := b[pos+recordHeaderSize : pos+recordHeaderSize+length]
			vpAssert(crc == crc32.Checksum(payload, castagnoliTable), "only checksum-verified fragments are surfaced")
			if i == 0 {
				vpAssert(typ == recFull || typ == recFirst, "a record starts with a Full or First fragment")
			} else {
				vpAssert(typ == recMiddle || typ == recLast, "continuation fragments are Middle or Last")
			}
			want = append(want, payload...)
			pos += recordHeaderSize + length
			if typ == recFull || typ == recLast {
				break
			}
			if i > 3 {
				return
			}
		}
		got := r.Record()
		vpObserve("len", len(got))
		vpAssert(len(got) == len(want), "record length")
		if len(got) == len(want) {
			for i := range got {
				vpAssert(got[i] == want[i], "record bytes are the fragment payloads in stream order")
			}
		}
	}
	vpReach("two records")
}
