//vp:property C13
//vp:pkg ./tsdb/wlog
//vp:roots ./util/compression io
//vp:budget steps=40000000 alloc=400000
//vp:bounds WL.Log / log / flushPage (writer) followed by wlog.Reader (reader) over an in-memory segment file: a first record of concrete zero bytes sized so that rem in {0,3,6,7,8,9,12,20} bytes remain in the 32 KiB page, then a second record of n in {0,1,5,13} arbitrary bytes (so it fits, exactly fits, or is split First/Last across the page boundary), optionally a third 2-byte record; a third harness tails the same kind of log with the real LiveReader while the file is cut at every byte offset 0..48 of the tail first (partial flush) and complete afterwards; a second harness writes a record of concrete zero bytes spanning 1..2 further full pages whose end lies exactly at, one byte before or one byte after a page end, followed by an arbitrary 2-byte record; checksums are an uninterpreted function (identical terms on both sides); the thorough tier widens the sets of page remainders, record sizes and cut offsets (see the harness)
//vp:assume single segment (segment size 4 pages: nextSegment is never needed), no compression, writes to the segment file succeed
package wlog

import (
	"bytes"
	"errors"
	"io"
	"log/slog"
	"os"

	"github.com/prometheus/prometheus/util/compression"
)

type vpXMemFile struct {
	data   []byte
	writes int
}

func (f *vpXMemFile) Stat() (os.FileInfo, error) { return nil, nil }
func (f *vpXMemFile) Sync() error                { return nil }
func (f *vpXMemFile) Write(p []byte) (int, error) {
	f.writes++
	f.data = append(f.data, p...)
	return len(p), nil
}
func (f *vpXMemFile) Read([]byte) (int, error) { return 0, errors.New("write-only") }
func (f *vpXMemFile) Close() error             { return nil }

// Records of any length, including zero-length records and records crossing a page boundary, are
// read back exactly as written, in order; after Log returns nil every byte has been handed to the file.
func vpH_C13_wal_page_boundary() {
	rems, ns := []int{0, 3, 6, 7, 8, 9, 12, 20}, []int{0, 1, 5, 13}
	if vpThorough() {
		rems, ns = []int{0, 1, 2, 3, 4, 5, 6, 7, 8, 9, 10, 11, 12, 14, 20, 33}, []int{0, 1, 2, 3, 5, 6, 7, 8, 13, 14, 26}
	}
	rem := rems[vpShape("rem", 0, len(rems)-1)]
	n := ns[vpShape("n", 0, len(ns)-1)]
	third := vpShape("third", 0, 1) == 1
	file := &vpXMemFile{}
	w := &WL{segmentSize: 4 * pageSize, page: &page{}, segment: &Segment{SegmentFile: file}, compress: compression.None}
	w.metrics = newWLMetrics(w, nil)

	rec0 := make([]byte, pageSize-recordHeaderSize-rem)
	rec1 := make([]byte, n)
	for i := range rec1 {
		rec1[i] = vpByte()
	}
	rec2 := []byte{vpByte(), vpByte()}
	vpAssert(w.Log(rec0) == nil, "Log succeeds")
	vpAssert(w.page.flushed == w.page.alloc, "after Log returns every byte of the batch has been handed to the segment file")
	if third {
		vpAssert(w.Log(rec1, rec2) == nil, "Log succeeds")
	} else {
		vpAssert(w.Log(rec1) == nil, "Log succeeds")
	}
	vpAssert(w.page.flushed == w.page.alloc, "after Log returns every byte of the batch has been handed to the segment file")
	vpObserve("written", len(file.data))

	r := NewReader(bytes.NewReader(file.data))
	want := [][]byte{rec0, rec1}
	if third {
		want = append(want, rec2)
	}
	for k, wrec := range want {
		vpAssert(r.Next(), "every written record is read back")
		got := r.Record()
		vpAssert(len(got) == len(wrec), "record length")
		if len(got) == len(wrec) && k > 0 {
			for i := range wrec {
				vpAssert(got[i] == wrec[i], "record bytes as written")
			}
		}
	}
	vpAssert(!r.Next(), "nothing after the last record")
	vpAssert(r.Err() == nil, "clean end of log")
	vpReach("end")
}

// A record spanning two or three pages whose last fragment ends exactly at a page end (or one byte
// before / after it) is terminated properly and everything after it is read back.
func vpH_C13_wal_multipage_fill() {
	rem := []int{0, 8, 20}[vpShape("rem", 0, 2)]
	pages := vpShape("fullpages", 1, 2)
	delta := vpShape("delta", 0, 2) - 1
	file := &vpXMemFile{}
	w := &WL{segmentSize: 8 * pageSize, page: &page{}, segment: &Segment{SegmentFile: file}, compress: compression.None}
	w.metrics = newWLMetrics(w, nil)
	rec0 := make([]byte, pageSize-recordHeaderSize-rem)
	first := 0
	if rem > recordHeaderSize {
		first = rem - recordHeaderSize
	}
	rec1 := make([]byte, first+pages*(pageSize-recordHeaderSize)+delta) // concrete zero bytes: its fragments' checksums fold
	rec2 := []byte{vpByte(), vpByte()}
	vpAssert(w.Log(rec0) == nil, "Log succeeds")
	vpAssert(w.Log(rec1, rec2) == nil, "Log succeeds")
	vpAssert(w.page.flushed == w.page.alloc, "after Log returns every byte of the batch has been handed to the segment file")
	vpObserve("written", len(file.data))
	r := NewReader(bytes.NewReader(file.data))
	for k, wrec := range [][]byte{rec0, rec1, rec2} {
		vpAssert(r.Next(), "every written record is read back")
		got := r.Record()
		vpAssert(len(got) == len(wrec), "record length")
		if k == 2 && len(got) == 2 {
			vpAssert(got[0] == rec2[0] && got[1] == rec2[1], "record bytes as written")
		}
	}
	vpAssert(!r.Next(), "nothing after the last record")
	vpAssert(r.Err() == nil, "clean end of log")
	vpReach("end")
}

type vpXGrowReader struct {
	data       []byte
	avail, pos int
}

func (r *vpXGrowReader) Read(p []byte) (int, error) {
	if r.pos >= r.avail {
		return 0, io.EOF
	}
	n := copy(p, r.data[r.pos:r.avail])
	r.pos += n
	return n, nil
}

// A live reader tailing the log sees a partial flush first (the file cut at an arbitrary byte of the
// tail), then the rest: it returns the same records, in order, none skipped or duplicated, and never
// reports corruption for a record that is merely incomplete.
func vpH_C13_live_reader_partial_flush() {
	rems, ns, cutHi := []int{0, 7, 8, 20}, []int{1, 13}, 48
	if vpThorough() {
		rems, ns, cutHi = []int{0, 3, 6, 7, 8, 9, 12, 20}, []int{0, 1, 5, 13}, 64
	}
	rem := rems[vpShape("rem", 0, len(rems)-1)]
	n := ns[vpShape("n", 0, len(ns)-1)]
	file := &vpXMemFile{}
	w := &WL{segmentSize: 4 * pageSize, page: &page{}, segment: &Segment{SegmentFile: file}, compress: compression.None}
	w.metrics = newWLMetrics(w, nil)
	rec0 := make([]byte, pageSize-recordHeaderSize-rem)
	rec1 := make([]byte, n)
	for i := range rec1 {
		rec1[i] = vpByte()
	}
	rec2 := []byte{vpByte(), vpByte()}
	vpAssert(w.Log(rec0) == nil, "Log succeeds")
	base := len(file.data)
	vpAssert(w.Log(rec1, rec2) == nil, "Log succeeds")
	tail := len(file.data) - base
	cut := base + vpShape("cut", 0, cutHi)
	if cut > len(file.data) {
		cut = len(file.data)
	}
	vpObserve("tail", tail)
	src := &vpXGrowReader{data: file.data, avail: cut}
	lr := NewLiveReader(slog.New(slog.DiscardHandler), NewLiveReaderMetrics(nil), src)
	var got [][]byte
	for phase := 0; phase < 2; phase++ {
		for lr.Next() {
			got = append(got, append([]byte(nil), lr.Record()...))
			if len(got) > 4 {
				break
			}
		}
		vpAssert(lr.Err() == io.EOF, "an incomplete tail is reported as end of data, not as corruption")
		src.avail = len(file.data)
	}
	want := [][]byte{rec0, rec1, rec2}
	vpObserve("records", len(got))
	vpAssert(len(got) == len(want), "every record exactly once")
	if len(got) == len(want) {
		for k := range want {
			vpAssert(len(got[k]) == len(want[k]), "record length")
			if k > 0 && len(got[k]) == len(want[k]) {
				for i := range want[k] {
					vpAssert(got[k][i] == want[k][i], "record bytes as written")
				}
			}
		}
	}
	vpReach("end")
}
