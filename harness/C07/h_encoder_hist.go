//vp:property C07
//vp:pkg ./tsdb
//vp:roots ./storage ./tsdb/chunkenc ./tsdb/chunks ./model/labels ./model/histogram ./model/value
//vp:budget wall_s=900
//vp:bounds re-encoding of merged samples into chunks (storage.NewSeriesToChunkEncoder -> seriesToChunkEncoder.Iterator with the real HistogramChunk appender: plain append, recode of the open chunk for a wider bucket layout, new chunk on counter reset, float/histogram type switch): 3 samples with symbolic strictly increasing timestamps in [0,64), with or without start timestamps (quick: none or all; thorough: per sample; a start timestamp forces the XOR2 / ST histogram encodings); sample kinds and histogram layouts by case split (float; histogram with buckets {0}, {0,1} or {0,1,2}; counts growing or dropping); each output chunk's MinTime/MaxTime are its first/last sample, chunks are time-ordered, and decoding them returns the 3 samples in order
//vp:assume necessary condition only (see the merge harness); concrete small bucket counts
package tsdb

import (
	"github.com/prometheus/prometheus/model/histogram"
	"github.com/prometheus/prometheus/model/labels"
	"github.com/prometheus/prometheus/storage"
	"github.com/prometheus/prometheus/tsdb/chunkenc"
	"github.com/prometheus/prometheus/tsdb/chunks"
)

type vpXEncSample struct {
	st int64
	t int64
	f float64
	h *histogram.Histogram
}

func (s vpXEncSample) T() int64                      { return s.t }
func (s vpXEncSample) ST() int64                     { return s.st }
func (s vpXEncSample) F() float64                    { return s.f }
func (s vpXEncSample) H() *histogram.Histogram       { return s.h }
func (s vpXEncSample) FH() *histogram.FloatHistogram { return nil }
func (s vpXEncSample) Type() chunkenc.ValueType {
	if s.h != nil {
		return chunkenc.ValHistogram
	}
	return chunkenc.ValFloat
}
func (s vpXEncSample) Copy() chunks.Sample { return s }

func vpH_C07_encoder_histogram_recode() {
	in := make([]vpXEncSample, 3)
	cs := make([]chunks.Sample, 3)
	last := int64(-1)
	allST := !vpThorough() && vpShape("allHaveST", 0, 1) == 1 // quick: no sample or every sample carries a start timestamp; thorough: per sample
	for i := range in {
		t := vpInt64()
		vpAssume(vpAnd(t > last, t < 64))
		last = t
		in[i].t = t
		if vpThorough() {
			if vpShape("hasST", 0, 1) == 1 {
				in[i].st = 5 // a start timestamp: needs a chunk encoding that can store it
			}
		} else if allST {
			in[i].st = 5
		}
		kind := vpShape("kind", 0, 3) // 0 float; 1..3 histogram with 1..3 buckets
		if kind == 0 {
			in[i].f = float64(i + 1)
		} else {
			base := int64(10 * (i + 1))
			if vpShape("drop", 0, 1) == 1 {
				base = 1 // lower than the previous sample: counter reset
			}
			bs := make([]int64, kind)
			bs[0] = base
			in[i].h = &histogram.Histogram{Schema: 0, ZeroThreshold: 0.001, Count: uint64(base) * uint64(kind), Sum: float64(i),
				PositiveSpans: []histogram.Span{{Offset: 0, Length: uint32(kind)}}, PositiveBuckets: bs}
		}
		cs[i] = in[i]
	}
	it := storage.NewSeriesToChunkEncoder(storage.NewListSeries(labels.FromStrings("a", "b"), cs)).Iterator(nil)
	k := 0
	prevMax := int64(-1)
	for it.Next() {
		m := it.At()
		vpAssert(m.MinTime > prevMax, "output chunks time-ordered")
		ci := m.Chunk.Iterator(nil)
		first := true
		var lastT int64
		n := 0
		for typ := ci.Next(); typ != chunkenc.ValNone; typ = ci.Next() {
			vpAssert(k < 3, "no extra samples")
			if k >= 3 {
				return
			}
			t := ci.AtT()
			if first {
				vpAssert(t == m.MinTime, "chunk MinTime is its first sample")
				first = false
			}
			lastT = t
			vpAssert(t == in[k].t, "samples in order with their timestamps")
			vpAssert(ci.AtST() == in[k].st, "start timestamp stored whenever the sample carries one")
			if in[k].h == nil {
				vpAssert(typ == chunkenc.ValFloat, "sample kind")
				if typ == chunkenc.ValFloat {
					_, v := ci.At()
					vpAssert(v == in[k].f, "float value")
				}
			} else {
				vpAssert(typ == chunkenc.ValHistogram, "sample kind")
				if typ == chunkenc.ValHistogram {
					_, h := ci.AtHistogram(nil)
					vpAssert(h.Count == in[k].h.Count && h.Sum == in[k].h.Sum, "histogram count and sum")
					vpAssert(len(h.PositiveBuckets) >= len(in[k].h.PositiveBuckets) && h.PositiveBuckets[0] == in[k].h.PositiveBuckets[0], "first bucket count")
					abs := int64(0)
					for j, b := range h.PositiveBuckets {
						abs += b
						if j < len(in[k].h.PositiveBuckets) {
							vpAssert(abs == in[k].h.PositiveBuckets[0], "bucket counts as appended")
						} else {
							vpAssert(abs == 0, "buckets added by a wider layout are empty")
						}
					}
				}
			}
			k++
			n++
		}
		vpAssert(ci.Err() == nil, "chunk decodes")
		vpAssert(n > 0 && lastT == m.MaxTime, "chunk MaxTime is its last sample")
		prevMax = m.MaxTime
	}
	vpAssert(it.Err() == nil, "no encoder error")
	vpObserve("samples", k)
	vpAssert(k == 3, "every sample is stored")
	vpReach("end")
}
