//vp:property C07
//vp:pkg ./storage
//vp:roots ./tsdb/chunkenc ./tsdb/chunks ./model/labels ./model/histogram container/heap
//vp:intercept github.com/prometheus/prometheus/tsdb/chunkenc.NewEmptyChunk => vpXNewEmptyChunk
//vp:budget wall_s=900 wall_s_thorough=3000
//vp:bounds the vertical-compaction merge kernel (NewCompactingChunkSeriesMerger(ChainedSeriesMerge) -> compactChunkIterator.Next with its overlap detection, duplicate-chunk elision and re-encoding through ChainedSeriesMerge/chainSampleIterator and seriesToChunkEncoder into chunks): 2 input chunk series of the same label set (thorough also 3 series of 1..2 single-sample chunks), each 1..2 chunks (list-backed, iterator contract) of 1..2 float samples or 3 single-sample chunks, timestamps symbolic in [0,64) and strictly increasing inside a series, values concrete and distinct per input position; the merged chunk sequence is drained and every output chunk decoded
//vp:assume in the engine the chunks created by seriesToChunkEncoder (chunkenc.NewEmptyChunk) are list-backed chunks obeying the Chunk/Appender contract - the XOR bit coding is C10's subject; the native replay of every witness uses the real XOR chunks and must observe the same chunk and sample counts. Necessary condition only: no blocks, index, tombstones, histograms or head ranges; input chunk metas carry MinTime/MaxTime of their first/last sample; input chunks expose an injective byte form (so "identical chunk" means identical samples)
package storage

import (
	"encoding/binary"
	"math"

	"github.com/prometheus/prometheus/model/histogram"
	"github.com/prometheus/prometheus/model/labels"
	"github.com/prometheus/prometheus/tsdb/chunkenc"
	"github.com/prometheus/prometheus/tsdb/chunks"
)

type vpXS struct {
	t int64
	v float64
}

type vpXListIter struct {
	ss []vpXS
	i  int
}

func (l *vpXListIter) Next() chunkenc.ValueType {
	if l.i < len(l.ss) {
		l.i++
	}
	if l.i >= len(l.ss) {
		return chunkenc.ValNone
	}
	return chunkenc.ValFloat
}
func (l *vpXListIter) Seek(t int64) chunkenc.ValueType {
	if l.i < 0 {
		l.i = 0
	}
	for l.i < len(l.ss) && l.ss[l.i].t < t {
		l.i++
	}
	if l.i >= len(l.ss) {
		return chunkenc.ValNone
	}
	return chunkenc.ValFloat
}
func (l *vpXListIter) At() (int64, float64) { return l.ss[l.i].t, l.ss[l.i].v }
func (l *vpXListIter) AtHistogram(*histogram.Histogram) (int64, *histogram.Histogram) {
	panic("no histograms")
}
func (l *vpXListIter) AtFloatHistogram(*histogram.FloatHistogram) (int64, *histogram.FloatHistogram) {
	panic("no histograms")
}
func (l *vpXListIter) AtT() int64  { return l.ss[l.i].t }
func (l *vpXListIter) AtST() int64 { return 0 }
func (l *vpXListIter) Err() error  { return nil }

type vpXChunk struct {
	chunkenc.Chunk
	ss []vpXS
}

func (c *vpXChunk) Iterator(chunkenc.Iterator) chunkenc.Iterator { return &vpXListIter{ss: c.ss, i: -1} }
func (c *vpXChunk) NumSamples() int                              { return len(c.ss) }
func (c *vpXChunk) Encoding() chunkenc.Encoding                  { return chunkenc.EncXOR }
func (c *vpXChunk) Bytes() []byte {
	b := make([]byte, 0, 16*len(c.ss))
	for _, s := range c.ss {
		b = binary.BigEndian.AppendUint64(b, uint64(s.t))
		b = binary.BigEndian.AppendUint64(b, math.Float64bits(s.v))
	}
	return b
}

type vpXApp struct{ c *vpXChunk }

func (a vpXApp) Append(_, t int64, v float64) { a.c.ss = append(a.c.ss, vpXS{t, v}) }
func (a vpXApp) AppendHistogram(chunkenc.Appender, int64, int64, *histogram.Histogram, bool) (chunkenc.Chunk, bool, chunkenc.Appender, error) {
	panic("no histograms")
}
func (a vpXApp) AppendFloatHistogram(chunkenc.Appender, int64, int64, *histogram.FloatHistogram, bool) (chunkenc.Chunk, bool, chunkenc.Appender, error) {
	panic("no histograms")
}
func (c *vpXChunk) Appender() (chunkenc.Appender, error) { return vpXApp{c}, nil }

func vpXNewEmptyChunk(e chunkenc.Encoding) (chunkenc.Chunk, error) { return &vpXChunk{}, nil }

func vpXMergeCheck(k int) {
	lset := labels.FromStrings("a", "b")
	var in []ChunkSeries
	var all []vpXS
	val := 1.0
	for s := 0; s < k; s++ {
		ncHi := 3
		if k >= 3 {
			ncHi = 2 // three input series (thorough): 1..2 single-sample chunks each (larger shapes ran past the wall budget)
		}
		nc := vpShape("chunks", 1, ncHi)
		var metas []chunks.Meta
		last := int64(-1)
		for c := 0; c < nc; c++ {
			ns := 1 // three chunks: single-sample chunks
			if nc < 3 && k < 3 {
				ns = vpShape("samples", 1, 2)
			}
			ss := make([]vpXS, ns)
			for i := range ss {
				t := vpInt64()
				vpAssume(vpAnd(t > last, t < 64))
				last = t
				ss[i] = vpXS{t, val}
				val++
			}
			all = append(all, ss...)
			metas = append(metas, chunks.Meta{MinTime: ss[0].t, MaxTime: ss[ns-1].t, Chunk: &vpXChunk{ss: ss}})
		}
		ms := metas
		in = append(in, &ChunkSeriesEntry{Lset: lset, ChunkIteratorFn: func(chunks.Iterator) chunks.Iterator { return NewListChunkSeriesIterator(ms...) }})
	}
	out := NewCompactingChunkSeriesMerger(ChainedSeriesMerge)(in...)
	vpAssert(labels.Equal(out.Labels(), lset), "labels preserved")
	it := out.Iterator(nil)
	var got []vpXS
	prevMax := int64(-1)
	nchunks := 0
	for it.Next() {
		m := it.At()
		nchunks++
		vpAssert(m.MinTime > prevMax, "output chunks time-ordered and non-overlapping")
		ci := m.Chunk.Iterator(nil)
		first := true
		var lastT int64
		n := 0
		for ci.Next() == chunkenc.ValFloat {
			t, v := ci.At()
			if first {
				vpAssert(t == m.MinTime, "chunk MinTime is its first sample")
				first = false
			}
			lastT = t
			got = append(got, vpXS{t, v})
			n++
		}
		vpAssert(ci.Err() == nil, "output chunk decodes")
		vpAssert(n > 0 && n == m.Chunk.NumSamples(), "sample count of the output chunk")
		vpAssert(lastT == m.MaxTime, "chunk MaxTime is its last sample")
		prevMax = m.MaxTime
	}
	vpAssert(it.Err() == nil, "no merge error")
	vpObserve("chunks", nchunks)
	vpObserve("samples", len(got))
	// got is strictly increasing in time
	for i := 1; i < len(got); i++ {
		vpAssert(got[i-1].t < got[i].t, "each timestamp once, in order")
	}
	// every input timestamp is present, with a value one of the inputs holds at that timestamp
	for _, a := range all {
		found := false
		for _, g := range got {
			found = vpOr(found, g.t == a.t)
		}
		vpAssert(found, "no input sample lost")
	}
	for _, g := range got {
		ok := false
		for _, a := range all {
			ok = vpOr(ok, vpAnd(g.t == a.t, math.Float64bits(g.v) == math.Float64bits(a.v)))
		}
		vpAssert(ok, "every output sample is an input sample")
	}
	vpReach("merged")
}

func vpH_C07_compacting_merge_2() { vpXMergeCheck(2) }

func vpH_C07_compacting_merge_3() {
	if !vpThorough() {
		return
	}
	vpXMergeCheck(3)
}
