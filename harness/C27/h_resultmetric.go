//vp:property C27
//vp:pkg ./promql
//vp:roots ./storage ./tsdb/chunkenc ./tsdb/chunks ./model/value ./model/histogram ./model/labels ./promql/parser ./schema ./util/stats ./util/zeropool
//vp:bounds per-node caches shared across the steps of a range evaluation: resultMetric (result labels of a vector binary operation with its EvalNodeHelper cache) called at two consecutive steps with the same or a different many-side series and the same or a different one-side series (2 candidates each, case split), one-to-one / group_left(version), on(job) or ignoring(version); the result at the second step equals the result computed with a fresh helper
//vp:assume label sets are concrete; what is decided is that the cache key distinguishes every input the result depends on
package promql

import (
	"github.com/prometheus/prometheus/model/labels"
	"github.com/prometheus/prometheus/promql/parser"
)

func vpH_C27_resultMetric_shared_helper() {
	many := []labels.Labels{
		labels.FromStrings("__name__", "up", "job", "a", "instance", "i1"),
		labels.FromStrings("__name__", "up", "job", "a", "instance", "i2"),
	}
	one := []labels.Labels{
		labels.FromStrings("__name__", "build_info", "job", "a", "version", "v1"),
		labels.FromStrings("__name__", "build_info", "job", "a", "version", "v2"),
	}
	var m *parser.VectorMatching
	switch vpShape("matching", 0, 2) {
	case 0:
		m = &parser.VectorMatching{Card: parser.CardManyToOne, On: true, MatchingLabels: []string{"job"}, Include: []string{"version"}}
	case 1:
		m = &parser.VectorMatching{Card: parser.CardOneToOne, On: true, MatchingLabels: []string{"job"}}
	case 2:
		m = &parser.VectorMatching{Card: parser.CardOneToOne, On: false, MatchingLabels: []string{"version"}}
	}
	op := []parser.ItemType{parser.MUL, parser.GTR}[vpShape("op", 0, 1)]
	l1, r1 := many[vpShape("lhs1", 0, 1)], one[vpShape("rhs1", 0, 1)]
	l2, r2 := many[vpShape("lhs2", 0, 1)], one[vpShape("rhs2", 0, 1)]
	shared := &EvalNodeHelper{}
	resultMetric(l1, r1, op, m, false, shared) // step 1
	got := resultMetric(l2, r2, op, m, false, shared) // step 2, same node
	want := resultMetric(l2, r2, op, m, false, &EvalNodeHelper{})
	vpObserve("n", got.Len())
	vpAssert(labels.Equal(got, want), "result labels at a later step equal those of a fresh evaluation")
	vpReach("end")
}
