//vp:property C27
//vp:pkg ./promql
//vp:roots ./storage ./tsdb/chunkenc ./tsdb/chunks ./model/value ./model/histogram ./util/stats ./util/zeropool
//vp:bounds instant selector (evaluator.vectorSelectorSingle over storage.MemoizedSeriesIterator) and range selector (evaluator.matrixIterSlice over storage.BufferedSeriesIterator and its sample ring): one series of <=2 float samples (thorough 3) with symbolic strictly increasing timestamps |t|<=2^40 and arbitrary value bits (staleness markers included), lookback/range in [1,2^40], offset |o|<=2^40, start |s|<=2^40, step in [1,2^40], evaluated at 2 (thorough 3) consecutive steps on one shared iterator
//vp:assume timestamps of a series strictly increase; evaluation times increase by a positive step (range evaluation)
package promql

import (
	"math"
	"time"

	"github.com/prometheus/prometheus/model/histogram"
	"github.com/prometheus/prometheus/storage"
	"github.com/prometheus/prometheus/tsdb/chunkenc"
	"github.com/prometheus/prometheus/tsdb/chunks"
)

type vpXSmp struct {
	t int64
	f float64
}

func (s vpXSmp) T() int64                      { return s.t }
func (s vpXSmp) ST() int64                     { return 0 }
func (s vpXSmp) F() float64                    { return s.f }
func (s vpXSmp) H() *histogram.Histogram       { return nil }
func (s vpXSmp) FH() *histogram.FloatHistogram { return nil }
func (s vpXSmp) Type() chunkenc.ValueType      { return chunkenc.ValFloat }
func (s vpXSmp) Copy() chunks.Sample           { return s }

type vpXSmps []chunks.Sample

func (s vpXSmps) Get(i int) chunks.Sample { return s[i] }
func (s vpXSmps) Len() int                { return len(s) }

const vpXStale = uint64(0x7ff0000000000002)

func vpXSeries() ([]vpXSmp, vpXSmps) {
	hi := 2
	if vpThorough() {
		hi = 3
	}
	n := vpShape("n", 0, hi)
	ss := make([]vpXSmp, n)
	cs := make(vpXSmps, n)
	for i := range ss {
		ss[i] = vpXSmp{t: vpInt64(), f: vpFloat64()}
		vpAssume(vpAnd(ss[i].t >= -(1<<40), ss[i].t <= 1<<40))
		if i > 0 {
			vpAssume(ss[i-1].t < ss[i].t)
		}
		cs[i] = ss[i]
	}
	return ss, cs
}

func vpXSteps() int64 {
	if vpThorough() {
		return 3
	}
	return 2
}

func vpXBounded(x int64, lo, hi int64) int64 {
	vpAssume(vpAnd(x >= lo, x <= hi))
	return x
}


// A range evaluation reuses one iterator across steps; at every step the instant selector must return
// what a fresh evaluation at that step's time returns.
func vpH_C27_vectorSelector_reuse() {
	_, cs := vpXSeries()
	lookbackD := time.Duration(vpXBounded(vpInt64(), 1000000, 1<<60))
	offsetD := time.Duration(vpXBounded(vpInt64(), -(1 << 60), 1<<60))
	lookback := durationMilliseconds(lookbackD)
	start := vpXBounded(vpInt64(), -(1 << 40), 1<<40)
	step := vpXBounded(vpInt64(), 1, 1<<40)
	ev := &evaluator{lookbackDelta: lookbackD, maxSamples: 1 << 30}
	delta := lookback
	if vpShape("delta", 0, 1) == 1 {
		delta = lookback - 1
	}
	shared := storage.NewMemoizedIterator(storage.NewListSeriesIterator(cs), delta)
	for k := int64(0); k < vpXSteps(); k++ {
		ts := start + k*step
		_, gt, gv, _, gok := ev.vectorSelectorSingle(shared, offsetD, ts)
		fresh := storage.NewMemoizedIterator(storage.NewListSeriesIterator(cs), delta)
		_, ft, fv, _, fok := ev.vectorSelectorSingle(fresh, offsetD, ts)
		vpObserve("ok", gok)
		vpObserve("t", gt)
		vpAssert(gok == fok, "same presence as a fresh instant evaluation")
		vpAssert(vpImplies(fok, vpAnd(gt == ft, math.Float64bits(gv) == math.Float64bits(fv))), "same sample as a fresh instant evaluation")
	}
	vpReach("end")
}

// Same for the range selector: the window computed from the previous step's slice equals the window computed from scratch.
func vpH_C27_matrixSlice_reuse() {
	_, cs := vpXSeries()
	rangeMs := vpXBounded(vpInt64(), 1, 1<<40)
	offset := vpXBounded(vpInt64(), -(1 << 40), 1<<40)
	start := vpXBounded(vpInt64(), -(1 << 40), 1<<40)
	step := vpXBounded(vpInt64(), 1, 1<<40)
	ev := &evaluator{maxSamples: 1 << 30}
	it := storage.NewBuffer(rangeMs)
	it.Reset(storage.NewListSeriesIterator(cs))
	var floats []FPoint
	var hists []HPoint
	for k := int64(0); k < vpXSteps(); k++ {
		ts := start + k*step
		maxt := ts - offset
		mint := maxt - rangeMs
		floats, hists, _ = ev.matrixIterSlice(it, mint, maxt, floats, hists, nil)
		fit := storage.NewBuffer(rangeMs)
		fit.Reset(storage.NewListSeriesIterator(cs))
		ff, _, _ := ev.matrixIterSlice(fit, mint, maxt, nil, nil, nil)
		vpObserve("n", len(floats))
		vpAssert(len(floats) == len(ff), "same number of points as a fresh evaluation")
		if len(floats) == len(ff) {
			for i := range ff {
				vpAssert(floats[i].T == ff[i].T && math.Float64bits(floats[i].F) == math.Float64bits(ff[i].F), "same points as a fresh evaluation")
			}
		}
	}
	_ = hists
	vpReach("end")
}
