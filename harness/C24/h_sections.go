//vp:property C24
//vp:pkg ./tsdb/encoding
//vp:roots github.com/dennwc/varint
//vp:bounds the checksummed section readers every index section and table is read through (encoding.NewDecbufAt and encoding.NewDecbufUvarintAt with the Castagnoli table): an arbitrary byte string of 6..13 bytes (thorough up to 16), an arbitrary offset 0..len+2; the result is an error, or a buffer that is exactly the length-prefixed content wholly inside the byte string and whose stored CRC32 equals the CRC32 of that content; no panic
//vp:assume CRC32 is an uninterpreted function of the exact byte sequence; offsets are non-negative (they come from the checksummed table of contents)
package encoding

import (
	"encoding/binary"
	"hash/crc32"
)

type vpXBS []byte

func (b vpXBS) Len() int                    { return len(b) }
func (b vpXBS) Range(start, end int) []byte { return b[start:end] }

var vpXCast = crc32.MakeTable(crc32.Castagnoli)

func vpXBytes() (vpXBS, int) {
	hi := 13
	if vpThorough() {
		hi = 16
	}
	n := vpShape("len", 6, hi)
	bs := make(vpXBS, n)
	for i := range bs {
		bs[i] = vpByte()
	}
	off := vpShape("off", 0, n+2)
	return bs, off
}

func vpH_C24_section_be32() {
	bs, off := vpXBytes()
	var d Decbuf
	panicked := vpPanics(func() { d = NewDecbufAt(bs, off, vpXCast) })
	vpAssert(!panicked, "no panic on arbitrary bytes")
	if panicked {
		return
	}
	vpObserve("err", d.E != nil)
	if d.E != nil {
		vpReach("rejected")
		return
	}
	vpAssert(off+4 <= len(bs), "length field inside the bytes")
	if off+4 > len(bs) {
		return
	}
	l := int(binary.BigEndian.Uint32(bs[off:]))
	vpAssert(off+4+l+4 <= len(bs), "content and checksum wholly inside the bytes")
	if off+4+l+4 > len(bs) {
		return
	}
	vpAssert(len(d.B) == l, "content length")
	if len(d.B) == l {
		for i := range d.B {
			vpAssert(d.B[i] == bs[off+4+i], "content bytes")
		}
	}
	vpAssert(binary.BigEndian.Uint32(bs[off+4+l:]) == crc32.Checksum(bs[off+4:off+4+l], vpXCast), "accepted only if the stored checksum matches")
	vpReach("accepted")
}

func vpH_C24_section_uvarint() {
	bs, off := vpXBytes()
	var d Decbuf
	panicked := vpPanics(func() { d = NewDecbufUvarintAt(bs, off, vpXCast) })
	vpAssert(!panicked, "no panic on arbitrary bytes")
	if panicked {
		return
	}
	vpObserve("err", d.E != nil)
	if d.E != nil {
		vpReach("rejected")
		return
	}
	vpAssert(off+binary.MaxVarintLen32 <= len(bs), "length prefix window inside the bytes")
	if off+binary.MaxVarintLen32 > len(bs) {
		return
	}
	l64, n := binary.Uvarint(bs[off : off+binary.MaxVarintLen32])
	vpAssert(n > 0, "length prefix well formed")
	if n <= 0 {
		return
	}
	l := int(l64)
	vpAssert(l64 < 1<<20 && off+n+l+4 <= len(bs), "content and checksum wholly inside the bytes")
	if !(l64 < 1<<20 && off+n+l+4 <= len(bs)) {
		return
	}
	vpAssert(len(d.B) == l, "content length")
	if len(d.B) == l {
		for i := range d.B {
			vpAssert(d.B[i] == bs[off+n+i], "content bytes")
		}
	}
	vpAssert(binary.BigEndian.Uint32(bs[off+n+l:]) == crc32.Checksum(bs[off+n:off+n+l], vpXCast), "accepted only if the stored checksum matches")
	vpReach("accepted")
}
