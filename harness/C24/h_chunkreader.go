//vp:property C24
//vp:pkg ./tsdb/chunks
//vp:roots ./tsdb/chunkenc
//vp:bounds chunks.Reader.ChunkOrIterable over a chunk segment given as an arbitrary byte string: header (magic, version) concrete, then 5..9 arbitrary bytes (thorough up to 12), optionally followed by a second zero-filled segment file, arbitrary 64-bit chunk reference (segment index and offset); CRC32 is an uninterpreted function of the exact byte sequence
//vp:assume checksums are an uninterpreted function (whether CRC32 detects a given alteration is not decided); the pool hands out fresh chunk objects
package chunks

import (
	"encoding/binary"
	"hash/crc32"

	"github.com/prometheus/prometheus/tsdb/chunkenc"
)

// For every byte string as a chunk segment and every reference: an error, or a chunk whose bytes are
// exactly the length-prefixed payload inside the segment - never when the stored checksum differs; no panic.
func vpH_C24_chunkReader_bytes() {
	hi := 9
	if vpThorough() {
		hi = 12
	}
	n := vpShape("len", 5, hi)
	seg := make([]byte, SegmentHeaderSize+n)
	binary.BigEndian.PutUint32(seg, MagicChunks)
	seg[MagicChunksSize] = chunksFormatV1
	for i := SegmentHeaderSize; i < len(seg); i++ {
		seg[i] = vpByte()
	}
	segs := [][]byte{seg}
	bss := []ByteSlice{realByteSlice(seg)}
	if vpShape("segments", 1, 2) == 2 { // a second, zero-filled segment file: the reader's total size exceeds the first segment's
		seg2 := make([]byte, SegmentHeaderSize+16)
		binary.BigEndian.PutUint32(seg2, MagicChunks)
		seg2[MagicChunksSize] = chunksFormatV1
		segs = append(segs, seg2)
		bss = append(bss, realByteSlice(seg2))
	}
	r, err := newReader(bss, nil, chunkenc.NewPool())
	if err != nil {
		panic(err)
	}
	ref := vpUint64()
	var chk chunkenc.Chunk
	var cerr error
	panicked := vpPanics(func() {
		chk, _, cerr = r.ChunkOrIterable(Meta{Ref: ChunkRef(ref)})
	})
	vpAssert(!panicked, "no panic on arbitrary segment bytes")
	if panicked {
		return
	}
	vpObserve("err", cerr != nil)
	if cerr != nil {
		vpReach("rejected")
		return
	}
	// accepted: re-derive the record boundaries from the bytes
	sgm, start := int(ref>>32), int(ref&0xffffffff)
	vpAssert(sgm >= 0 && sgm < len(segs), "only an existing segment is read")
	if !(sgm >= 0 && sgm < len(segs)) {
		return
	}
	seg = segs[sgm]
	vpAssert(start >= 0 && start+MaxChunkLengthFieldSize <= len(seg), "record start inside the segment")
	if !(start >= 0 && start+MaxChunkLengthFieldSize <= len(seg)) {
		return
	}
	dataLen, k := binary.Uvarint(seg[start : start+MaxChunkLengthFieldSize])
	vpAssert(k > 0, "length prefix well formed")
	if k <= 0 {
		return
	}
	encStart := start + k
	dataStart := encStart + ChunkEncodingSize
	dataEnd := dataStart + int(dataLen)
	end := dataEnd + crc32.Size
	vpAssert(dataLen < 1<<20 && end <= len(seg), "record wholly inside the segment")
	if !(dataLen < 1<<20 && end <= len(seg)) {
		return
	}
	stored := binary.BigEndian.Uint32(seg[dataEnd:end])
	vpAssert(stored == crc32.Checksum(seg[encStart:dataEnd], castagnoliTable), "a chunk is returned only if the stored checksum matches")
	got := chk.Bytes()
	vpObserve("n", len(got))
	vpAssert(len(got) == int(dataLen), "payload length")
	if len(got) == int(dataLen) {
		for i := range got {
			vpAssert(got[i] == seg[dataStart+i], "payload bytes are the segment's bytes")
		}
	}
	vpAssert(chk.Encoding() == chunkenc.Encoding(seg[encStart]), "encoding byte")
	vpReach("accepted")
}
