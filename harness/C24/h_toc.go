//vp:property C24
//vp:pkg ./tsdb/index
//vp:roots ./tsdb/encoding
//vp:bounds index table of contents (index.NewTOCFromByteSlice): an arbitrary byte string of 50..54 bytes (the TOC is the last 52); accepted only if the stored CRC32 equals the CRC32 of the six offsets, which are then returned exactly as stored; shorter input is rejected; no panic
//vp:assume CRC32 is an uninterpreted function of the exact byte sequence
package index

import (
	"encoding/binary"
	"hash/crc32"
)

type vpXTocBS []byte

func (b vpXTocBS) Len() int                    { return len(b) }
func (b vpXTocBS) Range(start, end int) []byte { return b[start:end] }

func vpH_C24_index_toc() {
	n := vpShape("len", 50, 54)
	bs := make(vpXTocBS, n)
	for i := range bs {
		bs[i] = vpByte()
	}
	var toc *TOC
	var err error
	panicked := vpPanics(func() { toc, err = NewTOCFromByteSlice(bs) })
	vpAssert(!panicked, "no panic on arbitrary bytes")
	if panicked {
		return
	}
	vpObserve("err", err != nil)
	if n < indexTOCLen {
		vpAssert(err != nil, "an index shorter than a table of contents is rejected")
	}
	if err != nil {
		vpReach("rejected")
		return
	}
	b := bs[n-indexTOCLen:]
	vpAssert(binary.BigEndian.Uint32(b[48:]) == crc32.Checksum(b[:48], castagnoliTable), "accepted only if the stored checksum matches")
	vpAssert(toc.Symbols == binary.BigEndian.Uint64(b[0:]) && toc.Series == binary.BigEndian.Uint64(b[8:]) && toc.LabelIndices == binary.BigEndian.Uint64(b[16:]) &&
		toc.LabelIndicesTable == binary.BigEndian.Uint64(b[24:]) && toc.Postings == binary.BigEndian.Uint64(b[32:]) && toc.PostingsTable == binary.BigEndian.Uint64(b[40:]), "section offsets as stored")
	vpReach("accepted")
}
