//vp:property C08
//vp:pkg ./tsdb
//vp:budget wall_s=1200
//vp:bounds LeveledCompactor.plan / planClass / selectDirs / selectOverlappingDirs / splitByRange on n<=3 blocks (thorough 4) with symbolic MinTime < MaxTime in [-2^15, 2^15), symbolic Failed flags, class hint (none / stale-series / selected-series); range ladder {8,32,128} (thorough also {10,30,90}); overlapping compaction on and off; no tombstones; CompactBlockMetas hint propagation on 1..2 (thorough 3) metas with arbitrary hints and time ranges
//vp:assume with overlapping compaction disabled the blocks of one class do not overlap (the option exists for deployments that resolve overlaps elsewhere); tombstone-triggered single-block plans (float ratio) are outside
package tsdb


func vpXClassOf(m *BlockMeta) int {
	switch {
	case m.Compaction.FromStaleSeries():
		return 1
	case m.Compaction.FromSelectedSeries():
		return 2
	}
	return 0
}

// A non-empty plan stays within one class and is either a connected set of overlapping blocks (only with
// the option on), or >= 2 non-overlapping, non-failed blocks inside one aligned range of the ladder
// that do not include the class's unique newest block.
func vpH_C08_plan_shape() {
	hi := 3
	if vpThorough() {
		hi = 4
	}
	n := vpShape("n", 1, hi)
	ladder := 0
	if vpThorough() {
		ladder = vpShape("ladder", 0, 1)
	}
	ranges := []int64{8, 32, 128}
	if ladder == 1 {
		ranges = []int64{10, 30, 90}
	}
	overlapOn := vpShape("overlap", 0, 1) == 1
	c := &LeveledCompactor{ranges: ranges, enableOverlappingCompaction: overlapOn}
	pattern := 0
	if !vpThorough() {
		pattern = vpShape("pattern", 0, 2)
	}
	dms := make([]dirMeta, n)
	metas := make([]*BlockMeta, n)
	for i := range dms {
		m := &BlockMeta{MinTime: int64(vpInt16()), MaxTime: int64(vpInt16())} // 16-bit times: every alignment class of the ladders, cheap for the solver
		vpAssume(m.MinTime < m.MaxTime)
		m.Compaction.Failed = vpBool()
		var cls int
		if vpThorough() {
			cls = vpShape("class", 0, 2)
		} else {
			cls = [][]int{{0, 0, 0, 0}, {1, 2, 1, 2}, {0, 2, 1, 0}}[pattern][i] // regular only; partial-view classes only; all three
		}
		switch cls {
		case 1:
			m.Compaction.SetStaleSeries()
		case 2:
			m.Compaction.SetSelectedSeries()
		}
		m.Stats.NumSeries = 10
		metas[i] = m
		dms[i] = dirMeta{dir: []string{"b0", "b1", "b2", "b3"}[i], meta: m}
	}
	if !overlapOn {
		for i := range metas {
			for j := i + 1; j < len(metas); j++ {
				if vpXClassOf(metas[i]) == vpXClassOf(metas[j]) {
					vpAssume(!vpAnd(metas[i].MinTime < metas[j].MaxTime, metas[j].MinTime < metas[i].MaxTime))
				}
			}
		}
	}
	res, err := c.plan(append([]dirMeta(nil), dms...))
	vpAssert(err == nil, "no error")
	vpObserve("nres", len(res))
	if len(res) == 0 {
		vpReach("empty plan")
		return
	}
	// map result dirs back to metas (dirs are concrete)
	var rm []*BlockMeta
	seen := map[string]bool{}
	for _, d := range res {
		vpAssert(!seen[d], "no block planned twice")
		seen[d] = true
		found := false
		for i := range dms {
			if dms[i].dir == d {
				rm = append(rm, metas[i])
				found = true
			}
		}
		vpAssert(found, "planned blocks exist")
	}
	k := vpXClassOf(rm[0])
	for _, m := range rm {
		vpAssert(vpXClassOf(m) == k, "a plan never mixes block classes")
	}
	vpAssert(len(rm) >= 2, "without tombstones a plan has at least two blocks")
	if len(rm) < 2 {
		return
	}
	overl := false
	for i := range rm {
		for j := i + 1; j < len(rm); j++ {
			overl = vpOr(overl, vpAnd(rm[i].MinTime < rm[j].MaxTime, rm[j].MinTime < rm[i].MaxTime))
		}
	}
	if overl {
		vpAssert(overlapOn, "overlapping blocks are planned only with the option on")
		// connected: in the planned order (MinTime order), every block starts before the running maximum MaxTime
		gmax := rm[0].MaxTime
		for i := 1; i < len(rm); i++ {
			vpAssert(rm[i-1].MinTime <= rm[i].MinTime, "planned in MinTime order")
			vpAssert(rm[i].MinTime < gmax, "overlap set is connected")
			if rm[i].MaxTime > gmax {
				gmax = rm[i].MaxTime
			}
		}
		vpReach("overlap plan")
		return
	}
	// leveled plan
	var newest int64 = -(1 << 62)
	cnt := 0
	for _, m := range metas {
		if vpXClassOf(m) == k && m.MinTime > newest {
			newest = m.MinTime
		}
	}
	for _, m := range metas {
		if vpXClassOf(m) == k && m.MinTime == newest {
			cnt++
		}
	}
	minT := rm[0].MinTime
	for _, m := range rm {
		vpAssert(!m.Compaction.Failed, "failed blocks are not selected")
		vpAssert(vpImplies(cnt == 1, m.MinTime != newest), "the newest block of the class is left alone")
		if m.MinTime < minT {
			minT = m.MinTime
		}
	}
	fitsSome := false
	for _, r := range ranges[1:] {
		var t0 int64
		if minT >= 0 {
			t0 = r * (minT / r)
		} else {
			t0 = r * ((minT - r + 1) / r)
		}
		fits := true
		for _, m := range rm {
			fits = vpAnd(fits, vpAnd(m.MinTime >= t0, m.MaxTime <= t0+r))
		}
		fitsSome = vpOr(fitsSome, fits)
	}
	vpAssert(fitsSome, "the planned blocks lie inside one aligned range of the ladder")
	vpReach("leveled plan")
}

// Hint propagation when blocks are merged: the out-of-order hint survives iff every source carries it,
// the partial-view hints survive if any source carries them; the time range is the union; parents are listed.
func vpH_C08_metas_hints() {
	hi := 2
	if vpThorough() {
		hi = 3
	}
	n := vpShape("n", 1, hi)
	bs := make([]*BlockMeta, n)
	allOOO, anyStale, anySel := true, false, false
	for i := range bs {
		m := &BlockMeta{MinTime: vpInt64(), MaxTime: vpInt64()}
		m.ULID[0] = byte(i + 1)
		m.Compaction.Level = vpShape("level", 1, 2)
		st, sel, ooo := vpBool(), vpBool(), vpBool()
		if st {
			m.Compaction.SetStaleSeries()
		}
		if sel {
			m.Compaction.SetSelectedSeries()
		}
		if ooo {
			m.Compaction.SetOutOfOrder()
		}
		allOOO = allOOO && ooo
		anyStale = anyStale || st
		anySel = anySel || sel
		bs[i] = m
	}
	var uid [16]byte
	uid[0] = 99
	res := CompactBlockMetas(uid, bs...)
	vpAssert(res.Compaction.FromOutOfOrder() == allOOO, "out-of-order hint iff every source block is out-of-order")
	vpAssert(res.Compaction.FromStaleSeries() == anyStale, "stale-series hint preserved")
	vpAssert(res.Compaction.FromSelectedSeries() == anySel, "selected-series hint preserved")
	for _, b := range bs {
		vpAssert(res.MinTime <= b.MinTime && res.MaxTime >= b.MaxTime, "time range covers every source")
	}
	hitMin, hitMax := false, false
	for _, b := range bs {
		hitMin = vpOr(hitMin, res.MinTime == b.MinTime)
		hitMax = vpOr(hitMax, res.MaxTime == b.MaxTime)
	}
	vpAssert(vpAnd(hitMin, hitMax), "time range is the min/max of the sources")
	vpAssert(len(res.Compaction.Parents) == n, "parents listed")
	vpObserve("level", res.Compaction.Level)
	vpReach("end")
}
