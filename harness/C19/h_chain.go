//vp:property C19
//vp:pkg ./storage
//vp:roots ./tsdb/chunkenc ./model/histogram
//vp:bounds chainSampleIterator (sample-level merge with de-duplication) over k<=3 input iterators with <=2 float samples each (thorough: 3 samples for k<=2), symbolic strictly increasing timestamps in [-2^62, 2^62] per input (equal timestamps across inputs included), values arbitrary bits; drained with Next, or Seek(x) with arbitrary x followed by Next; also with the iterator object reused after a previous series (1..2 samples, partly or fully consumed; next merge over <=2 inputs)
//vp:assume per input: timestamps strictly increasing and within +-2^62 (never the MinInt64 sentinel)
package storage

import (
	"math"

	"github.com/prometheus/prometheus/model/histogram"
	"github.com/prometheus/prometheus/tsdb/chunkenc"
)

type vpXSample struct {
	t int64
	v float64
}

// vpXListIt is a list-backed chunkenc.Iterator obeying the Next/Seek contract.
type vpXListIt struct {
	ss []vpXSample
	i  int
}

func (l *vpXListIt) Next() chunkenc.ValueType {
	if l.i < len(l.ss) {
		l.i++
	}
	if l.i >= len(l.ss) {
		return chunkenc.ValNone
	}
	return chunkenc.ValFloat
}

func (l *vpXListIt) Seek(t int64) chunkenc.ValueType {
	if l.i < 0 {
		l.i = 0
	}
	for l.i < len(l.ss) && l.ss[l.i].t < t {
		l.i++
	}
	if l.i >= len(l.ss) {
		return chunkenc.ValNone
	}
	return chunkenc.ValFloat
}
func (l *vpXListIt) At() (int64, float64) { return l.ss[l.i].t, l.ss[l.i].v }
func (l *vpXListIt) AtHistogram(*histogram.Histogram) (int64, *histogram.Histogram) {
	panic("no histograms")
}
func (l *vpXListIt) AtFloatHistogram(*histogram.FloatHistogram) (int64, *histogram.FloatHistogram) {
	panic("no histograms")
}
func (l *vpXListIt) AtT() int64  { return l.ss[l.i].t }
func (l *vpXListIt) AtST() int64 { return 0 }
func (l *vpXListIt) Err() error  { return nil }

func vpXInputs() ([][]vpXSample, []chunkenc.Iterator) { return vpXInputsK(3) }

func vpXInputsK(kQuick int) ([][]vpXSample, []chunkenc.Iterator) { return vpXInputsKT(kQuick, 3) }

func vpXInputsKT(kQuick, kThorough int) ([][]vpXSample, []chunkenc.Iterator) {
	kHi, nHi := kQuick, 2
	if vpThorough() {
		kHi, nHi = kThorough, 3
	}
	k := vpShape("k", 1, kHi)
	if vpThorough() && k >= 3 {
		nHi = 2 // thorough: up to 2 inputs of up to 3 samples, or 3 inputs of up to 2 (3x3 ran for hours)
	}
	ins := make([][]vpXSample, k)
	its := make([]chunkenc.Iterator, k)
	for i := range ins {
		n := vpShape("n", 0, nHi)
		ss := make([]vpXSample, n)
		for j := range ss {
			ss[j] = vpXSample{t: vpInt64(), v: vpFloat64()}
			vpAssume(vpAnd(ss[j].t >= -(1<<62), ss[j].t <= 1<<62))
			if j > 0 {
				vpAssume(ss[j-1].t < ss[j].t)
			}
		}
		ins[i] = ss
		its[i] = &vpXListIt{ss: ss, i: -1}
	}
	return ins, its
}

func vpXCheckMerge(ins [][]vpXSample, out []vpXSample, from int64, useFrom bool) {
	total := 0
	for _, ss := range ins {
		total += len(ss)
	}
	vpAssert(len(out) <= total, "no more outputs than inputs")
	for i, o := range out {
		vpObserve("t", o.t)
		vpObserve("v", o.v)
		if i > 0 {
			vpAssert(out[i-1].t < o.t, "output timestamps strictly increasing (duplicates merged)")
		}
		member := false
		for _, ss := range ins {
			for _, s := range ss {
				member = vpOr(member, vpAnd(s.t == o.t, math.Float64bits(s.v) == math.Float64bits(o.v)))
			}
		}
		vpAssert(member, "every output is a sample of some input")
		if useFrom {
			vpAssert(o.t >= from, "nothing before the Seek target")
		}
	}
	for _, ss := range ins {
		for _, s := range ss {
			present := false
			for _, o := range out {
				present = vpOr(present, o.t == s.t)
			}
			if useFrom {
				vpAssert(vpImplies(s.t >= from, present), "no timestamp at or after the Seek target lost")
			} else {
				vpAssert(present, "no timestamp lost")
			}
		}
	}
}

func vpH_C19_chain_next() {
	ins, its := vpXInputs()
	it := ChainSampleIteratorFromIterators(nil, its)
	var out []vpXSample
	for it.Next() == chunkenc.ValFloat {
		t, v := it.At()
		out = append(out, vpXSample{t, v})
		if len(out) > 9 {
			break
		}
	}
	vpAssert(it.Err() == nil, "no error")
	vpXCheckMerge(ins, out, 0, false)
	vpReach("end")
}

func vpH_C19_chain_seek() {
	ins, its := vpXInputs()
	it := ChainSampleIteratorFromIterators(nil, its)
	x := vpInt64()
	var out []vpXSample
	if it.Seek(x) == chunkenc.ValFloat {
		t, v := it.At()
		out = append(out, vpXSample{t, v})
		vpAssert(it.AtT() == t, "AtT")
		for it.Next() == chunkenc.ValFloat {
			t, v := it.At()
			out = append(out, vpXSample{t, v})
			if len(out) > 9 {
				break
			}
		}
	}
	vpXCheckMerge(ins, out, x, true)
	vpReach("end")
}

// The merged iterator object is reused from one series to the next (Series.Iterator(prev)): state left
// over from the previous series must not leak into the next merge.
func vpH_C19_chain_reuse() {
	// previous series: one input with 1..2 samples, fully or partly consumed
	n0 := vpShape("prev", 1, 2)
	prev := make([]vpXSample, n0)
	for j := range prev {
		prev[j] = vpXSample{t: vpInt64(), v: vpFloat64()}
		vpAssume(vpAnd(prev[j].t >= -(1<<62), prev[j].t <= 1<<62))
		if j > 0 {
			vpAssume(prev[j-1].t < prev[j].t)
		}
	}
	it := ChainSampleIteratorFromIterators(nil, []chunkenc.Iterator{&vpXListIt{ss: prev, i: -1}})
	steps := vpShape("consumed", 0, n0)
	for s := 0; s < steps; s++ {
		it.Next()
	}
	ins, its := vpXInputsKT(2, 2) // thorough: 2 inputs of up to 3 samples (3 inputs ran past the wall budget)
	it = ChainSampleIteratorFromIterators(it, its)
	var out []vpXSample
	var x int64
	seek := vpShape("seek", 0, 1) == 1
	if seek {
		x = vpInt64()
		if it.Seek(x) == chunkenc.ValFloat {
			t, v := it.At()
			out = append(out, vpXSample{t, v})
		} else {
			vpXCheckMerge(ins, out, x, true)
			vpReach("end")
			return
		}
	}
	for it.Next() == chunkenc.ValFloat {
		t, v := it.At()
		out = append(out, vpXSample{t, v})
		if len(out) > 9 {
			break
		}
	}
	vpXCheckMerge(ins, out, x, seek)
	vpReach("end")
}
