//vp:property C34
//vp:pkg ./promql
//vp:backend z3-new
//vp:lazyfork
//vp:budget query_ms=300000
//vp:intercept (github.com/prometheus/prometheus/model/labels.Labels).Hash => vpXLabelsHash
//vp:thorough-only vpH_C34_ratio_monotone
//vp:bounds every float64 ratio r in [0,1] and every uint64 label hash (the sampling offset is computed by the real SampleOffset from the hash); the complement ratio is r-1 computed in float64 as PromQL evaluates it; selection observed through the exported AddRatioSampleWithOffset
//vp:assume labels.Labels.Hash is replaced by an arbitrary uint64 in the engine (selection depends on the labels only through this hash); natively the offset the engine derived from the real SampleOffset is re-supplied to AddRatioSampleWithOffset
package promql

import "github.com/prometheus/prometheus/model/labels"

var vpXHashVal uint64

func vpXLabelsHash(ls labels.Labels) uint64 { return vpXHashVal }

func vpXOffset() float64 {
	vpXHashVal = vpUint64()
	var ls labels.Labels
	return vpDerived(NewHashRatioSampler().SampleOffset(&ls))
}

// limit_ratio(r, v) and limit_ratio(r-1, v) select disjoint sets whose union is v.
func vpH_C34_ratio_partition() {
	off := vpXOffset()
	r := vpFloat64()
	vpAssume(vpAnd(r >= 0, r <= 1))
	s := NewHashRatioSampler()
	a := s.AddRatioSampleWithOffset(r, off)
	b := s.AddRatioSampleWithOffset(r-1, off)
	vpObserve("r", r)
	vpObserve("off", off)
	vpObserve("a", a)
	vpObserve("b", b)
	vpAssert(a != b, "partition")
	vpReach("end")
}

// Raising r never deselects a sample.
func vpH_C34_ratio_monotone() {
	off := vpXOffset()
	r, r2 := vpFloat64(), vpFloat64()
	vpAssume(vpAnd(r >= 0, vpAnd(r <= r2, r2 <= 1)))
	s := NewHashRatioSampler()
	a := s.AddRatioSampleWithOffset(r, off)
	b := s.AddRatioSampleWithOffset(r2, off)
	vpObserve("r", r)
	vpObserve("r2", r2)
	vpObserve("off", off)
	vpObserve("a", a)
	vpObserve("b", b)
	vpAssert(vpImplies(a, b), "monotone in r")
	vpReach("end")
}
