//vp:property C12
//vp:pkg ./tsdb/chunkenc
//vp:roots ./model/histogram ./model/value
//vp:bounds float-histogram twin of the chunk-level soundness check (FloatHistogramAppender.appendable with expandFloatSpansAndBuckets): chunk and next histogram with layouts of up to 2 spans on the populated side (positive or negative; the other side one common bucket), every bucket count, count, zero count, sum and zero threshold an arbitrary float64 bit pattern (bucket counts non-NaN and non-negative), arbitrary schemas (next histogram exponential), every counter-reset header and hint, 1..65535 samples already in the chunk
package chunkenc

import (
	"math"

	"github.com/prometheus/prometheus/model/histogram"
)

func vpH_C12_appendable_sound_float() {
	aSp, aIdx := vpXLayout("a")
	bSp, bIdx := vpXLayout("b")
	av := make([]xorValue, len(aIdx))
	bv := make([]float64, len(bIdx))
	nonNeg := func() float64 {
		f := vpFloat64()
		vpAssume(vpAnd(!math.IsNaN(f), f >= 0))
		return f
	}
	for i := range av {
		av[i].value = nonNeg()
	}
	for i := range bv {
		bv[i] = nonNeg()
	}
	num := vpUint16()
	vpAssume(num >= 1)
	hdr := CounterResetHeader(vpUint8() & CounterResetHeaderMask)
	vpAssume(hdr != GaugeType)
	other := []histogram.Span{{Offset: 0, Length: 1}}
	oa, ob := nonNeg(), nonNeg()
	app := &FloatHistogramAppender{
		b:      &bstream{stream: []byte{byte(num >> 8), byte(num), byte(hdr)}},
		schema: vpInt32(), zThreshold: vpFloat64(),
		cnt: xorValue{value: vpFloat64()}, zCnt: xorValue{value: vpFloat64()}, sum: xorValue{value: vpFloat64()},
	}
	h := &histogram.FloatHistogram{
		CounterResetHint: histogram.CounterResetHint(vpUint8() & 3),
		Schema:           vpInt32(), ZeroThreshold: vpFloat64(), ZeroCount: vpFloat64(), Count: vpFloat64(), Sum: vpFloat64(),
	}
	vpAssume(vpAnd(h.Schema >= -4, h.Schema <= 8))
	if vpShape("negativeSide", 0, 1) == 1 {
		app.nSpans, app.nBuckets, app.pSpans, app.pBuckets = aSp, av, other, []xorValue{{value: oa}}
		h.NegativeSpans, h.NegativeBuckets, h.PositiveSpans, h.PositiveBuckets = bSp, bv, other, []float64{ob}
	} else {
		app.pSpans, app.pBuckets, app.nSpans, app.nBuckets = aSp, av, other, []xorValue{{value: oa}}
		h.PositiveSpans, h.PositiveBuckets, h.NegativeSpans, h.NegativeBuckets = bSp, bv, other, []float64{ob}
	}
	_, _, _, _, ok, _ := app.appendable(h)
	vpObserve("ok", ok)
	if ok && math.Float64bits(h.Sum) != 0x7ff0000000000002 { // not a staleness marker
		vpAssert(h.Schema == app.schema, "same schema")
		vpAssert(h.ZeroThreshold == app.zThreshold, "same zero threshold")
		vpAssert(!(h.Count < app.cnt.value), "count did not decrease")
		vpAssert(!(h.ZeroCount < app.zCnt.value), "zero count did not decrease")
		vpAssert(h.CounterResetHint != histogram.CounterReset, "explicit counter reset is honoured")
		vpAssert(math.Float64bits(app.sum.value) != 0x7ff0000000000002, "nothing but staleness markers after a staleness marker")
		vpAssert(!(ob < oa), "no bucket count decreased (other side)")
		for i, idx := range aIdx {
			j := vpXIndexOf(bIdx, idx)
			if j < 0 {
				vpAssert(av[i].value == 0, "a bucket absent from the next histogram was empty")
			} else {
				vpAssert(!(bv[j] < av[i].value), "no bucket count decreased")
			}
		}
		vpReach("appendable")
	}
	vpReach("end")
}
