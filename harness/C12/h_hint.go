//vp:property C12
//vp:pkg ./tsdb/chunkenc
//vp:roots ./model/histogram ./model/value
//vp:bounds HistogramAppender.appendable from an arbitrary appender state (last histogram of a counter chunk): positive-side layouts a (chunk) and b (next histogram) of up to 2 spans each enumerated concretely as in C11, all counts, count, zero count, zero threshold, schema and sum bits symbolic; counterResetHint for all 4 header values x all 2^16 read positions
//vp:assume absolute bucket counts are non-negative; the chunk is a counter (non-gauge) chunk with at least one sample
package chunkenc

import (
	"math"

	"github.com/prometheus/prometheus/model/histogram"
)

// vpXLayout enumerates a span layout through the shape and returns it with the list of bucket indexes it denotes.
func vpXLayout(name string) ([]histogram.Span, []int) {
	lenLo, off0Lo, off0Hi, offLo, offHi := 1, 0, 1, 1, 2
	if vpThorough() {
		lenLo, off0Lo, off0Hi, offLo, offHi = 0, -1, 1, 0, 2
	}
	n := vpShape(name+"spans", 0, 2)
	spans := make([]histogram.Span, n)
	var idxs []int
	idx := 0
	for i := range spans {
		var off int
		if i == 0 {
			off = vpShape(name+"off0", off0Lo, off0Hi)
		} else {
			off = vpShape(name+"off", offLo, offHi)
		}
		l := vpShape(name+"len", lenLo, 2)
		spans[i] = histogram.Span{Offset: int32(off), Length: uint32(l)}
		idx += off
		for j := 0; j < l; j++ {
			idxs = append(idxs, idx)
			idx++
		}
	}
	return spans, idxs
}

// vpXCounts draws n arbitrary absolute counts and returns them with their delta encoding.
func vpXCounts(n int) (abs, deltas []int64) {
	var prev int64
	for i := 0; i < n; i++ {
		c := vpInt64()
		vpAssume(vpAnd(c >= 0, c < 1<<60))
		abs = append(abs, c)
		deltas = append(deltas, c-prev)
		prev = c
	}
	return
}

func vpXAbsOf(deltas []int64) []int64 {
	out := make([]int64, len(deltas))
	var cur int64
	for i, d := range deltas {
		cur += d
		out[i] = cur
	}
	return out
}

func vpXIndexOf(idxs []int, idx int) int {
	for i, x := range idxs {
		if x == idx {
			return i
		}
	}
	return -1
}

func vpXSpanIdxs(spans []histogram.Span) []int {
	var idxs []int
	idx := 0
	for _, s := range spans {
		idx += int(s.Offset)
		for j := uint32(0); j < s.Length; j++ {
			idxs = append(idxs, idx)
			idx++
		}
	}
	return idxs
}


// If appendable says the next histogram can stay in the chunk (the iterator will then report
// NotCounterReset for it), nothing that a counter reset would lower has decreased.
func vpH_C12_appendable_sound() {
	aSp, aIdx := vpXLayout("a")
	bSp, bIdx := vpXLayout("b")
	aAbs, aDeltas := vpXCounts(len(aIdx))
	bAbs, bDeltas := vpXCounts(len(bIdx))
	num := vpUint16()
	vpAssume(num >= 1)
	hdr := CounterResetHeader(vpUint8() & CounterResetHeaderMask)
	vpAssume(hdr != GaugeType)
	app := &HistogramAppender{
		b:      &bstream{stream: []byte{byte(num >> 8), byte(num), byte(hdr)}},
		schema: vpInt32(), zThreshold: vpFloat64(), pSpans: aSp, pBuckets: aDeltas,
		cnt: vpUint64(), zCnt: vpUint64(), sum: vpFloat64(),
	}
	h := &histogram.Histogram{
		CounterResetHint: histogram.CounterResetHint(vpUint8() & 3),
		Schema:           vpInt32(), ZeroThreshold: vpFloat64(), ZeroCount: vpUint64(), Count: vpUint64(), Sum: vpFloat64(),
		PositiveSpans: bSp, PositiveBuckets: bDeltas,
	}
	vpAssume(vpAnd(h.Schema >= -4, h.Schema <= 8)) // exponential schema
	_, _, _, _, ok, crh := app.appendable(h)
	vpObserve("ok", ok)
	vpObserve("crh", uint8(crh))
	if ok && math.Float64bits(h.Sum) != 0x7ff0000000000002 { // not a staleness marker
		vpAssert(h.Schema == app.schema, "same schema")
		vpAssert(h.ZeroThreshold == app.zThreshold, "same zero threshold")
		vpAssert(h.Count >= app.cnt, "count did not decrease")
		vpAssert(h.ZeroCount >= app.zCnt, "zero count did not decrease")
		vpAssert(h.CounterResetHint != histogram.CounterReset, "explicit counter reset is honoured")
		vpAssert(math.Float64bits(app.sum) != 0x7ff0000000000002, "nothing but staleness markers after a staleness marker")
		for i, idx := range aIdx {
			j := vpXIndexOf(bIdx, idx)
			if j < 0 {
				vpAssert(aAbs[i] == 0, "a bucket absent from the next histogram was empty")
			} else {
				vpAssert(aAbs[i] <= bAbs[j], "no bucket count decreased")
			}
		}
		vpReach("appendable")
	}
	vpReach("end")
}

// NotCounterReset is reported only for samples after the first one of a non-gauge chunk.
func vpH_C12_hint_table() {
	crh := CounterResetHeader(vpUint8())
	numRead := vpUint16()
	got := counterResetHint(crh, numRead)
	vpObserve("hint", uint8(got))
	vpAssert(vpImplies(got == histogram.NotCounterReset, vpAnd(numRead > 1, crh != GaugeType)), "NotCounterReset only after the first sample of a non-gauge chunk")
	vpAssert(vpImplies(crh == GaugeType, got == histogram.GaugeType), "gauge chunks report gauge")
	vpReach("end")
}
