//vp:property C12
//vp:pkg ./storage
//vp:roots ./tsdb/chunkenc ./model/histogram
//vp:bounds merged iterators (chainSampleIterator.Next/AtHistogram 'consecutive' flag): 2 input iterators with <=2 histogram samples each (thorough 3), symbolic strictly increasing timestamps in [-2^62,2^62] per input, every input sample carrying the NotCounterReset hint (the strongest claim an input can make)
//vp:assume per input timestamps strictly increase; identification of the source sample uses a distinct Count tag per input sample
package storage

import (
	"github.com/prometheus/prometheus/model/histogram"
	"github.com/prometheus/prometheus/tsdb/chunkenc"
)

type vpXHS struct {
	t   int64
	tag uint64 // 10*input + position
}

type vpXHIt struct {
	ss []vpXHS
	i  int
}

func (l *vpXHIt) Next() chunkenc.ValueType {
	if l.i < len(l.ss) {
		l.i++
	}
	if l.i >= len(l.ss) {
		return chunkenc.ValNone
	}
	return chunkenc.ValHistogram
}
func (l *vpXHIt) Seek(t int64) chunkenc.ValueType {
	if l.i < 0 {
		l.i = 0
	}
	for l.i < len(l.ss) && l.ss[l.i].t < t {
		l.i++
	}
	if l.i >= len(l.ss) {
		return chunkenc.ValNone
	}
	return chunkenc.ValHistogram
}
func (l *vpXHIt) At() (int64, float64) { panic("no floats") }
func (l *vpXHIt) AtHistogram(*histogram.Histogram) (int64, *histogram.Histogram) {
	return l.ss[l.i].t, &histogram.Histogram{Count: l.ss[l.i].tag, CounterResetHint: histogram.NotCounterReset}
}
func (l *vpXHIt) AtFloatHistogram(*histogram.FloatHistogram) (int64, *histogram.FloatHistogram) {
	panic("no float histograms")
}
func (l *vpXHIt) AtT() int64  { return l.ss[l.i].t }
func (l *vpXHIt) AtST() int64 { return 0 }
func (l *vpXHIt) Err() error  { return nil }

// A merged stream reports NotCounterReset for a sample only if the previously returned sample came
// from the same input iterator and was that input's immediate predecessor.
func vpH_C12_chain_hint() {
	nHi := 2
	if vpThorough() {
		nHi = 3
	}
	its := make([]chunkenc.Iterator, 2)
	for i := range its {
		n := vpShape("n", 0, nHi)
		ss := make([]vpXHS, n)
		for j := range ss {
			ss[j] = vpXHS{t: vpInt64(), tag: uint64(10*i + j)}
			vpAssume(vpAnd(ss[j].t >= -(1<<62), ss[j].t <= 1<<62))
			if j > 0 {
				vpAssume(ss[j-1].t < ss[j].t)
			}
		}
		its[i] = &vpXHIt{ss: ss, i: -1}
	}
	it := ChainSampleIteratorFromIterators(nil, its)
	prevTag := uint64(1000)
	for k := 0; k < 8; k++ {
		if it.Next() != chunkenc.ValHistogram {
			break
		}
		_, h := it.AtHistogram(nil)
		vpObserve("tag", h.Count)
		vpObserve("hint", uint8(h.CounterResetHint))
		if h.CounterResetHint == histogram.NotCounterReset {
			vpAssert(prevTag != 1000 && h.Count == prevTag+1 && h.Count/10 == prevTag/10, "NotCounterReset only directly after the same input's previous sample")
		}
		prevTag = h.Count
	}
	vpReach("end")
}
