//vp:property C44
//vp:pkg ./rules
//vp:roots ./model/labels ./promql ./promql/parser ./template time ./model/timestamp github.com/prometheus/common/model
//vp:bounds one evaluation step of AlertingRule.Eval for a single label set from an arbitrary prior alert state: prior state none / pending / firing / inactive with ActiveAt, ResolvedAt, KeepFiringSince on a one-minute grid (enumerated concretely: time.Time arithmetic multiplies and divides by 10^9, which the solvers do not finish on symbolic instants), evaluation time after all of them; the 'for' duration and keep_firing_for symbolic (any non-negative Duration up to 2^60 ns); the alert expression returns the label set or nothing (both cases); thorough: more prior activation instants and evaluation instants (3,4,5,18,19,34 minutes)
//vp:assume rule without label/annotation templates; instants enumerated on a minute grid; single label set; durations non-negative
package rules

import (
	"context"
	"time"

	"github.com/prometheus/prometheus/model/labels"
	"github.com/prometheus/prometheus/promql"
	"github.com/prometheus/prometheus/promql/parser"
)

type vpXExpr struct{ parser.Expr }

func (vpXExpr) String() string { return "up" }

// Reference transition function written from the documentation of for / keep_firing_for.
type vpXAl struct {
	state                                 int // 0 none 1 pending 2 firing 3 inactive
	activeAt, resolvedAt, keepFiringSince time.Time
}

func vpXStep(m vpXAl, present bool, ts time.Time, hold, keep time.Duration) vpXAl {
	if present {
		if m.state == 0 || m.state == 3 {
			m = vpXAl{state: 1, activeAt: ts}
		}
		m.keepFiringSince = time.Time{}
		if m.state == 1 && ts.Sub(m.activeAt) >= hold {
			m.state = 2
		}
		if m.state == 2 && ts.Sub(m.activeAt) < hold {
			m.state = 1 // the 'for' duration was raised by a reload
		}
		return m
	}
	switch m.state {
	case 1:
		return vpXAl{}
	case 2:
		keepF := false
		if keep > 0 {
			if m.keepFiringSince.IsZero() {
				m.keepFiringSince = ts
			}
			if ts.Sub(m.keepFiringSince) < keep {
				keepF = true
			}
		}
		if !keepF {
			m.state = 3
			m.resolvedAt = ts
		} else if ts.Sub(m.activeAt) < hold {
			m.state = 1
			m.keepFiringSince = time.Time{}
		}
	case 3:
		if ts.Sub(m.resolvedAt) > resolvedRetention {
			return vpXAl{}
		}
	}
	return m
}

func vpH_C44_alert_step() {
	hold := time.Duration(vpInt64())
	keep := time.Duration(vpInt64())
	vpAssume(vpAnd(hold >= 0, hold <= 1<<60))
	vpAssume(vpAnd(keep >= 0, keep <= 1<<60))
	r := NewAlertingRule("a", vpXExpr{}, hold, keep, labels.EmptyLabels(), labels.EmptyLabels(), labels.EmptyLabels(), "", true, nil)
	present := true
	q := func(context.Context, string, time.Time) (promql.Vector, error) {
		if present {
			return promql.Vector{{Metric: labels.FromStrings("x", "y"), F: 1}}, nil
		}
		return nil, nil
	}
	t0 := time.Unix(1000000, 0).UTC()
	at := func(min int) time.Time { return t0.Add(time.Duration(min) * time.Minute) }

	// prior state
	var m vpXAl
	prior := vpShape("prior", 0, 3)
	if prior != 0 {
		// create the alert entry through the real code, then put it into an arbitrary state
		saved := r.holdDuration
		r.holdDuration = 0
		if _, err := r.Eval(context.Background(), 0, at(0), q, nil, 0); err != nil {
			panic(err)
		}
		r.holdDuration = saved
		var a *Alert
		for _, x := range r.active {
			a = x
		}
		m.state = prior
		aHi := 2
		if vpThorough() {
			aHi = 3
		}
		m.activeAt = at(vpShape("activeAt", 0, aHi))
		a.ActiveAt = m.activeAt
		a.FiredAt, a.ResolvedAt, a.KeepFiringSince = time.Time{}, time.Time{}, time.Time{}
		switch prior {
		case 1:
			a.State = StatePending
		case 2:
			a.State = StateFiring
			a.FiredAt = m.activeAt
			if vpShape("keepSince", 0, 1) == 1 {
				m.keepFiringSince = at(3)
				a.KeepFiringSince = m.keepFiringSince
			}
		case 3:
			a.State = StateInactive
			m.resolvedAt = at(3)
			a.ResolvedAt = m.resolvedAt
		}
	}
	present = vpShape("present", 0, 1) == 1
	nows := []int{4, 19} // 4 minutes, or 19 minutes (past the resolved retention)
	if vpThorough() {
		nows = []int{3, 4, 5, 18, 19, 34}
	}
	now := at(nows[vpShape("later", 0, len(nows)-1)])
	vec, err := r.Eval(context.Background(), 0, now, q, nil, 0)
	if err != nil {
		panic(err)
	}
	want := vpXStep(m, present, now, hold, keep)
	// the ALERTS / ALERTS_FOR_STATE series written for this evaluation (the for-state restore has run: see set-up)
	nAlerts, nForState := 0, 0
	for _, smp := range vec {
		switch smp.Metric.Get("__name__") {
		case "ALERTS":
			nAlerts++
			wantState := map[int]string{1: "pending", 2: "firing"}[want.state]
			vpAssert(smp.F == 1 && smp.Metric.Get("alertstate") == wantState && smp.Metric.Get("alertname") == "a" && smp.Metric.Get("x") == "y", "ALERTS sample carries the alert's state and labels")
		case "ALERTS_FOR_STATE":
			nForState++
			vpAssert(smp.F == float64(want.activeAt.Unix()) && smp.Metric.Get("alertname") == "a" && smp.Metric.Get("x") == "y", "ALERTS_FOR_STATE carries the activation time")
		default:
			vpAssert(false, "only ALERTS and ALERTS_FOR_STATE samples are produced")
		}
	}
	wantSeries := 0
	if want.state == 1 || want.state == 2 {
		wantSeries = 1
	}
	vpObserve("alerts_series", nAlerts)
	vpAssert(nAlerts == wantSeries && nForState == wantSeries, "one ALERTS and one ALERTS_FOR_STATE sample exactly for a pending or firing alert")
	var got *Alert
	n := 0
	for _, x := range r.active {
		got = x
		n++
	}
	vpObserve("n", n)
	if want.state == 0 {
		vpAssert(n == 0, "no alert is tracked")
		vpReach("none")
		return
	}
	vpAssert(n == 1, "exactly one alert for the label set")
	if n != 1 {
		return
	}
	vpObserve("state", int(got.State))
	wantState := map[int]AlertState{1: StatePending, 2: StateFiring, 3: StateInactive}[want.state]
	vpAssert(got.State == wantState, "alert state follows the for / keep_firing_for rules")
	vpAssert(got.ActiveAt.Equal(want.activeAt), "active-since time")
	if want.state == 3 {
		vpAssert(got.ResolvedAt.Equal(want.resolvedAt), "resolved time")
	} else {
		vpAssert(got.ResolvedAt.IsZero(), "not resolved")
	}
	vpAssert(got.KeepFiringSince.Equal(want.keepFiringSince) || (got.KeepFiringSince.IsZero() && want.keepFiringSince.IsZero()), "keep-firing clock")
	vpReach("tracked")
}
