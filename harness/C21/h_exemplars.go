//vp:property C21
//vp:pkg ./tsdb
//vp:roots ./model/labels ./model/exemplar ./storage
//vp:bounds CircularExemplarStorage.AddExemplar (validateExemplar, findInsertionIndex, removeExemplar, removeIndex): capacity 1..3, a history of 4 adds (thorough 5) to 2 series with symbolic timestamps |t|<=2^60 and arbitrary float64 values, out-of-order window symbolic in [0,2^60]; exemplar label sets empty (so the label-hash tie-break is constant); compared after every add with a reference model written from the property and the code's documentation
//vp:bounds Select over both series after 3 adds, arbitrary time range
//vp:bounds Resize (grow / shrink / copyExemplarRanges): after 3 adds, a resize to capacity 1..4, then one more add; compared with the reference (keep the most recently accepted that fit) after each step
//vp:assume exemplar labels are empty; values are compared as floats exactly as the documentation states
package tsdb

import (
	"math"

	"github.com/prometheus/prometheus/model/exemplar"
	"github.com/prometheus/prometheus/model/labels"
)

type vpXEx struct {
	series int
	ts     int64
	v      float64
	id     int
}

type vpXExModel struct {
	cap    int
	acc    []vpXEx   // retained, acceptance order
	lists  [][]vpXEx // per series, list order
	window int64
	nextID int
}

func (m *vpXExModel) evictOldest() {
	o := m.acc[0]
	m.acc = m.acc[1:]
	l := m.lists[o.series]
	for i := range l {
		if l[i].id == o.id {
			m.lists[o.series] = append(append([]vpXEx{}, l[:i]...), l[i+1:]...)
			break
		}
	}
}

// add returns 0 accepted/no-op, 1 out of order.
func (m *vpXExModel) add(s int, ts int64, v float64) int {
	l := m.lists[s]
	if len(l) > 0 {
		newest := l[len(l)-1]
		if newest.ts == ts && newest.v == v {
			return 0 // duplicate of the newest (Exemplar.Equals compares values with ==): no-op
		}
		if (ts < newest.ts && ts <= newest.ts-m.window) || (ts == newest.ts && v < newest.v) {
			return 1
		}
		oldest := l[0]
		if ts >= oldest.ts && ts < newest.ts {
			for i := len(l) - 1; i >= 0; i-- {
				if l[i].ts <= ts {
					if l[i].ts == ts {
						return 0 // documented: assumed duplicate, dropped silently
					}
					break
				}
			}
		}
	}
	if len(m.acc) == m.cap {
		m.evictOldest()
	}
	m.nextID++
	x := vpXEx{s, ts, v, m.nextID}
	m.acc = append(m.acc, x)
	l = m.lists[s]
	pos := len(l)
	switch {
	case len(l) == 0:
		pos = 0
	case ts >= l[len(l)-1].ts:
		pos = len(l)
	case ts < l[0].ts:
		pos = 0
	default:
		pos = 0
		for i := len(l) - 1; i >= 0; i-- {
			if l[i].ts <= ts {
				pos = i + 1
				break
			}
		}
	}
	nl := append([]vpXEx{}, l[:pos]...)
	nl = append(nl, x)
	nl = append(nl, l[pos:]...)
	m.lists[s] = nl
	return 0
}

// vpXCheckEx compares the store's per-series lists with the reference model; false means the walk had to stop.
func vpXCheckEx(ce *CircularExemplarStorage, m *vpXExModel, series []labels.Labels) bool {
	// retained exemplars, per series in list order
	for si := range series {
		var buf [128]byte
		idx := ce.index[string(series[si].Bytes(buf[:]))]
		l := m.lists[si]
		if len(l) == 0 {
			vpAssert(idx == nil, "a series without retained exemplars has no index entry")
			continue
		}
		vpAssert(idx != nil, "a series with retained exemplars is indexed")
		if idx == nil {
			return false
		}
		cur := idx.oldest
		for i := range l {
			vpAssert(cur != noExemplar, "list has every retained exemplar")
			if cur == noExemplar {
				return false
			}
			e := ce.exemplars[cur]
			vpObserve("ts", e.exemplar.Ts)
			vpAssert(e.exemplar.Ts == l[i].ts && math.Float64bits(e.exemplar.Value) == math.Float64bits(l[i].v), "retained exemplars are the newest accepted ones, in per-series time order")
			if i > 0 {
				vpAssert(l[i-1].ts <= l[i].ts, "non-decreasing timestamps")
			}
			if i == len(l)-1 {
				vpAssert(cur == idx.newest && e.next == noExemplar, "list ends at the newest exemplar")
			}
			cur = e.next
		}
	}
	return true
}

func vpH_C21_exemplar_history() {
	capN := vpShape("cap", 1, 3)
	steps := 4
	if vpThorough() {
		steps = 5
	}
	window := vpInt64()
	vpAssume(vpAnd(window >= 0, window <= 1<<60))
	es, err := NewCircularExemplarStorage(int64(capN), NewExemplarMetrics(nil), window)
	if err != nil {
		panic(err)
	}
	ce := es.(*CircularExemplarStorage)
	series := []labels.Labels{labels.FromStrings("a", "1"), labels.FromStrings("a", "2")}
	m := &vpXExModel{cap: capN, lists: make([][]vpXEx, 2), window: window}
	for step := 0; step < steps; step++ {
		s := vpShape("series", 0, 1)
		ts, v := vpInt64(), vpFloat64()
		vpAssume(vpAnd(ts >= -(1<<60), ts <= 1<<60))
		vpAssume(!math.IsNaN(v))
		err := ce.AddExemplar(series[s], exemplar.Exemplar{Ts: ts, Value: v, HasTs: true})
		want := m.add(s, ts, v)
		got := 0
		if err != nil {
			got = 1
		}
		vpObserve("rejected", got)
		vpAssert(got == want, "accepted or rejected as out of order exactly as the rules say")
		if !vpXCheckEx(ce, m, series) {
			return
		}
	}
	vpReach("end")
}

// Resizing keeps the most recently accepted exemplars that fit, and the store keeps working afterwards.
func vpH_C21_exemplar_resize() {
	capN := vpShape("cap", 1, 3)
	window := vpInt64()
	vpAssume(vpAnd(window >= 0, window <= 1<<60))
	es, err := NewCircularExemplarStorage(int64(capN), NewExemplarMetrics(nil), window)
	if err != nil {
		panic(err)
	}
	ce := es.(*CircularExemplarStorage)
	series := []labels.Labels{labels.FromStrings("a", "1"), labels.FromStrings("a", "2")}
	m := &vpXExModel{cap: capN, lists: make([][]vpXEx, 2), window: window}
	add := func() bool {
		s := vpShape("series", 0, 1)
		ts, v := vpInt64(), vpFloat64()
		vpAssume(vpAnd(ts >= -(1<<60), ts <= 1<<60))
		vpAssume(!math.IsNaN(v))
		err := ce.AddExemplar(series[s], exemplar.Exemplar{Ts: ts, Value: v, HasTs: true})
		want := m.add(s, ts, v)
		got := 0
		if err != nil {
			got = 1
		}
		vpAssert(got == want, "accepted or rejected as out of order exactly as the rules say")
		return vpXCheckEx(ce, m, series)
	}
	for step := 0; step < 3; step++ {
		if !add() {
			return
		}
	}
	newCap := vpShape("newcap", 1, 4)
	ce.Resize(int64(newCap))
	m.cap = newCap
	for len(m.acc) > newCap {
		m.evictOldest()
	}
	vpObserve("retained", len(m.acc))
	if !vpXCheckEx(ce, m, series) {
		return
	}
	if !add() {
		return
	}
	vpReach("end")
}

// A query returns, per matching series in label order, its retained exemplars inside the time range in list order.
func vpH_C21_exemplar_select() {
	capN := vpShape("cap", 1, 3)
	window := vpInt64()
	vpAssume(vpAnd(window >= 0, window <= 1<<60))
	es, err := NewCircularExemplarStorage(int64(capN), NewExemplarMetrics(nil), window)
	if err != nil {
		panic(err)
	}
	ce := es.(*CircularExemplarStorage)
	series := []labels.Labels{labels.FromStrings("a", "1"), labels.FromStrings("a", "2")}
	m := &vpXExModel{cap: capN, lists: make([][]vpXEx, 2), window: window}
	for step := 0; step < 3; step++ {
		s := vpShape("series", 0, 1)
		ts, v := vpInt64(), vpFloat64()
		vpAssume(vpAnd(ts >= -(1<<60), ts <= 1<<60))
		vpAssume(!math.IsNaN(v))
		err := ce.AddExemplar(series[s], exemplar.Exemplar{Ts: ts, Value: v, HasTs: true})
		want := m.add(s, ts, v)
		vpAssert((err != nil) == (want == 1), "accepted or rejected as out of order exactly as the rules say")
	}
	start, end := vpInt64(), vpInt64()
	vpAssume(start <= end)
	res, err := ce.Select(start, end,
		[]*labels.Matcher{labels.MustNewMatcher(labels.MatchEqual, "a", "1")},
		[]*labels.Matcher{labels.MustNewMatcher(labels.MatchEqual, "a", "2")})
	vpAssert(err == nil, "no error")
	vpObserve("series", len(res))
	k := 0
	for si := range series {
		var want []vpXEx
		for _, x := range m.lists[si] {
			if x.ts >= start && x.ts <= end {
				want = append(want, x)
			}
		}
		if len(want) == 0 {
			continue
		}
		vpAssert(k < len(res), "every series with retained exemplars in the range is returned")
		if k >= len(res) {
			return
		}
		vpAssert(labels.Equal(res[k].SeriesLabels, series[si]), "series in label order")
		vpAssert(len(res[k].Exemplars) == len(want), "exactly the retained exemplars inside the range")
		if len(res[k].Exemplars) == len(want) {
			for i := range want {
				vpAssert(res[k].Exemplars[i].Ts == want[i].ts && math.Float64bits(res[k].Exemplars[i].Value) == math.Float64bits(want[i].v), "in non-decreasing timestamp order, as stored")
			}
		}
		k++
	}
	vpAssert(k == len(res), "no other series is returned")
	vpReach("end")
}
