//vp:property C16
//vp:pkg ./tsdb/index
//vp:roots ./storage github.com/bboreham/go-loser
//vp:bounds postings algebra: Intersect, Merge (loser tree) and Without over 2..3 list postings (Without: 2; the Seek harness uses 2 lists in quick) of <=2 refs each (thorough: 3 refs for 2 lists), refs symbolic strictly increasing uint64 >= 1; consumed by Next, or by Seek(x) with arbitrary x >= 1 followed by Next
//vp:assume series references are < 2^63 (Merge's loser tree uses MaxUint64 as its end-of-list sentinel: a series with that reference would be dropped - recorded as an observation outside the bounds)
//vp:assume series references are >= 1 and strictly increasing within a postings list; Seek targets >= 1 (listPostings.Seek(0) on a fresh iterator reports At()==0; references start at 1)
package index

import (
	"context"

	"github.com/prometheus/prometheus/storage"
)

func vpXLists(kQuick int) [][]storage.SeriesRef {
	kHi, nHi := kQuick, 2
	if vpThorough() {
		kHi, nHi = 3, 3
	}
	k := vpShape("k", 2, kHi)
	if vpThorough() && k >= 3 {
		nHi = 2 // thorough: 2 lists of up to 3 refs, or 3 lists of up to 2 (3x3 ran past the wall budget)
	}
	ls := make([][]storage.SeriesRef, k)
	for i := range ls {
		n := vpShape("n", 0, nHi)
		l := make([]storage.SeriesRef, n)
		for j := range l {
			l[j] = storage.SeriesRef(vpUint64())
			vpAssume(vpAnd(l[j] >= 1, l[j] < 1<<63)) // MaxUint64 is the loser tree's end sentinel; real refs are far below
			if j > 0 {
				vpAssume(l[j-1] < l[j])
			}
		}
		ls[i] = l
	}
	return ls
}

func vpXIn(l []storage.SeriesRef, x storage.SeriesRef) bool {
	r := false
	for _, y := range l {
		r = vpOr(r, y == x)
	}
	return r
}

// want(x): membership of x in the result of op over the lists.
func vpXWant(op int, ls [][]storage.SeriesRef, x storage.SeriesRef) bool {
	switch op {
	case 0: // intersect
		r := true
		for _, l := range ls {
			r = vpAnd(r, vpXIn(l, x))
		}
		return r
	case 1: // merge
		r := false
		for _, l := range ls {
			r = vpOr(r, vpXIn(l, x))
		}
		return r
	default: // without: first minus second
		return vpAnd(vpXIn(ls[0], x), !vpXIn(ls[1], x))
	}
}

func vpXBuild(op int, ls [][]storage.SeriesRef) Postings {
	ps := make([]Postings, len(ls))
	for i, l := range ls {
		ps[i] = NewListPostings(append([]storage.SeriesRef(nil), l...))
	}
	switch op {
	case 0:
		return Intersect(ps...)
	case 1:
		return Merge(context.Background(), ps...)
	default:
		return Without(ps[0], ps[1])
	}
}

func vpXCheckPostings(op int, ls [][]storage.SeriesRef, out []storage.SeriesRef, from storage.SeriesRef) {
	for i, o := range out {
		vpObserve("ref", uint64(o))
		if i > 0 {
			vpAssert(out[i-1] < o, "strictly increasing")
		}
		vpAssert(vpXWant(op, ls, o), "every returned series satisfies the set operation")
		vpAssert(o >= from, "nothing before the Seek target")
	}
	for _, l := range ls {
		for _, r := range l {
			present := false
			for _, o := range out {
				present = vpOr(present, o == r)
			}
			vpAssert(vpImplies(vpAnd(vpXWant(op, ls, r), r >= from), present), "no satisfying series lost")
		}
	}
}

func vpH_C16_postings_next() {
	op := vpShape("op", 0, 2)
	ls := vpXLists(3)
	if op == 2 && len(ls) > 2 {
		ls = ls[:2]
	}
	p := vpXBuild(op, ls)
	var out []storage.SeriesRef
	for p.Next() {
		out = append(out, p.At())
		if len(out) > 10 {
			break
		}
	}
	vpAssert(p.Err() == nil, "no error")
	vpXCheckPostings(op, ls, out, 0)
	vpReach("end")
}

func vpH_C16_postings_seek() {
	op := vpShape("op", 0, 2)
	ls := vpXLists(2)
	if op == 2 && len(ls) > 2 {
		ls = ls[:2]
	}
	p := vpXBuild(op, ls)
	x := storage.SeriesRef(vpUint64())
	vpAssume(x >= 1)
	var out []storage.SeriesRef
	if p.Seek(x) {
		out = append(out, p.At())
		// Seek is idempotent at the current position
		vpAssert(p.Seek(x) && p.At() == out[0], "Seek to a satisfied target stays")
		for p.Next() {
			out = append(out, p.At())
			if len(out) > 10 {
				break
			}
		}
	}
	vpXCheckPostings(op, ls, out, x)
	vpReach("end")
}
