//vp:property C16
//vp:pkg ./tsdb/index
//vp:roots ./storage ./model/labels github.com/bboreham/go-loser
//vp:bounds postings read from a block's index (bigEndianPostings over 4-byte big-endian references, Next and Seek with its binary search): 0..3 arbitrary strictly increasing references in [1, 2^32), a script of 3 steps (thorough 4), each Next or Seek(x) with x in [1, 2^32); every call returns the next reference in order (Seek: the first at or after the target, staying put if the current one qualifies) and false exactly when none qualifies
//vp:assume references and Seek targets are in [1, 2^32) (block series references are stored in 4 bytes; Seek compares on the low 32 bits of the target)
package index

import (
	"encoding/binary"

	"github.com/prometheus/prometheus/storage"
)

func vpH_C16_bigendian_postings_script() {
	n := vpShape("n", 0, 3)
	refs := make([]uint32, n)
	var raw []byte
	for i := range refs {
		refs[i] = vpUint32()
		vpAssume(refs[i] >= 1)
		if i > 0 {
			vpAssume(refs[i-1] < refs[i])
		}
		raw = binary.BigEndian.AppendUint32(raw, refs[i])
	}
	it := newBigEndianPostings(raw)
	steps := 3
	if vpThorough() {
		steps = 4
	}
	var cur uint64 // current reference, 0 before the first one
	for s := 0; s < steps; s++ {
		var ok bool
		lo := cur + 1
		stay := false
		if vpShape("op", 0, 1) == 0 {
			ok = it.Next()
		} else {
			x := vpUint32()
			vpAssume(x >= 1)
			ok = it.Seek(storage.SeriesRef(x))
			if cur >= uint64(x) {
				stay = true
			} else {
				lo = uint64(x)
			}
		}
		var want uint64
		if stay {
			want = cur
		} else {
			for i := len(refs) - 1; i >= 0; i-- {
				want = vpIte(uint64(refs[i]) >= lo, uint64(refs[i]), want)
			}
		}
		vpObserve("ok", ok)
		if want == 0 {
			vpAssert(!ok, "false when no reference qualifies")
			vpReach("exhausted")
			return
		}
		vpAssert(ok, "a qualifying reference is found")
		if !ok {
			return
		}
		vpObserve("ref", uint64(it.At()))
		vpAssert(uint64(it.At()) == want, "the next reference in order, none skipped")
		cur = want
	}
	vpReach("end")
}
