//vp:property C16
//vp:pkg ./tsdb
//vp:roots ./tsdb/index ./model/labels ./storage ./tsdb/chunks github.com/bboreham/go-loser
//vp:bounds series selection by equality matchers (PostingsForMatchers with its intersecting / subtracting / label-must-be-set logic, postingsForMatcher, inversePostingsForMatcher, over the head's MemPostings): 3 series whose labels a and b each take a value from {absent, x, y} (case split), 1..2 matchers each of type = or != on label a or b with value "", x or y (case split); the selected references are exactly the series on which every matcher holds, an absent label counting as the empty string
//vp:assume regular-expression matchers are outside (the regexp package is not encoded); label data concrete, the whole space of the case split is explored
package tsdb

import (
	"context"

	"github.com/prometheus/prometheus/model/labels"
	"github.com/prometheus/prometheus/storage"
	"github.com/prometheus/prometheus/tsdb/chunks"
	"github.com/prometheus/prometheus/tsdb/index"
)

func vpH_C16_postings_for_matchers_eq() {
	vals := []string{"", "x", "y"}
	h := &Head{postings: index.NewMemPostings()}
	h.minTime.Store(0)
	h.maxTime.Store(10)
	type ser struct{ a, b string }
	series := make([]ser, 3)
	for i := range series {
		series[i] = ser{vals[vpShape("a", 0, 2)], vals[vpShape("b", 0, 2)]}
		var kv []string
		kv = append(kv, "__name__", "m")
		if series[i].a != "" {
			kv = append(kv, "a", series[i].a)
		}
		if series[i].b != "" {
			kv = append(kv, "b", series[i].b)
		}
		h.postings.Add(storage.SeriesRef(i+1), labels.FromStrings(kv...))
	}
	nm := vpShape("matchers", 1, 2)
	type mt struct {
		neg  bool
		name string
		val  string
	}
	var ms []*labels.Matcher
	var spec []mt
	for j := 0; j < nm; j++ {
		m := mt{neg: vpShape("neg", 0, 1) == 1, name: []string{"a", "b"}[vpShape("name", 0, 1)], val: vals[vpShape("val", 0, 2)]}
		t := labels.MatchEqual
		if m.neg {
			t = labels.MatchNotEqual
		}
		ms = append(ms, labels.MustNewMatcher(t, m.name, m.val))
		spec = append(spec, m)
	}
	ir := &headIndexReader{head: h, mint: 0, maxt: 10}
	p, err := PostingsForMatchers(context.Background(), ir, ms...)
	vpAssert(err == nil, "no error")
	got := map[storage.SeriesRef]bool{}
	var prev storage.SeriesRef
	n := 0
	for p.Next() {
		vpAssert(p.At() > prev, "references strictly increasing")
		prev = p.At()
		got[p.At()] = true
		n++
		if n > 4 {
			break
		}
	}
	vpAssert(p.Err() == nil, "no postings error")
	vpObserve("n", n)
	for i, s := range series {
		want := true
		for _, m := range spec {
			v := s.a
			if m.name == "b" {
				v = s.b
			}
			if (v == m.val) == m.neg {
				want = false
			}
		}
		vpAssert(got[storage.SeriesRef(i+1)] == want, "a series is selected exactly when every matcher holds on it (absent label = empty string)")
	}
	vpReach("end")
}

// Label value / label name queries with matchers return exactly what the matching series carry.
func vpH_C16_label_queries_with_matchers() {
	vals := []string{"", "x", "y"}
	h := &Head{postings: index.NewMemPostings()}
	h.series = newStripeSeries(1, &noopSeriesLifecycleCallback{})
	h.minTime.Store(0)
	h.maxTime.Store(10)
	type ser struct{ a, b string }
	series := make([]ser, 3)
	for i := range series {
		series[i] = ser{vals[vpShape("a", 0, 2)], vals[vpShape("b", 0, 2)]}
		kv := []string{"__name__", "m"}
		if series[i].a != "" {
			kv = append(kv, "a", series[i].a)
		}
		if series[i].b != "" {
			kv = append(kv, "b", series[i].b)
		}
		lset := labels.FromStrings(kv...)
		h.postings.Add(storage.SeriesRef(i+1), lset)
		h.series.series[0][chunks.HeadSeriesRef(i+1)] = newMemSeries(lset, chunks.HeadSeriesRef(i+1), 0, true, false)
	}
	neg := vpShape("neg", 0, 1) == 1
	mval := vals[vpShape("val", 0, 2)]
	t := labels.MatchEqual
	if neg {
		t = labels.MatchNotEqual
	}
	m := labels.MustNewMatcher(t, "b", mval)
	ir := &headIndexReader{head: h, mint: 0, maxt: 10}
	got, err := ir.SortedLabelValues(context.Background(), "a", nil, m)
	vpAssert(err == nil, "no error")
	names, err := ir.LabelNames(context.Background(), m)
	vpAssert(err == nil, "no error")
	wantX, wantY, wantA, wantB, wantAny := false, false, false, false, false
	for _, s := range series {
		if (s.b == mval) == neg {
			continue
		}
		wantAny = true
		wantX = wantX || s.a == "x"
		wantY = wantY || s.a == "y"
		wantA = wantA || s.a != ""
		wantB = wantB || s.b != ""
	}
	var want []string
	if wantX {
		want = append(want, "x")
	}
	if wantY {
		want = append(want, "y")
	}
	vpObserve("n", len(got))
	vpAssert(len(got) == len(want), "values of the label among the matching series, each once")
	if len(got) == len(want) {
		for i := range want {
			vpAssert(got[i] == want[i], "sorted label values")
		}
	}
	var wantNames []string
	if wantAny {
		wantNames = append(wantNames, "__name__")
	}
	if wantA {
		wantNames = append(wantNames, "a")
	}
	if wantB {
		wantNames = append(wantNames, "b")
	}
	vpAssert(len(names) == len(wantNames), "label names carried by the matching series, each once")
	if len(names) == len(wantNames) {
		for i := range wantNames {
			vpAssert(names[i] == wantNames[i], "sorted label names")
		}
	}
	vpReach("end")
}
