//vp:property C16
//vp:pkg ./tsdb/index
//vp:roots ./storage ./model/labels github.com/bboreham/go-loser
//vp:bounds in-memory postings insertion (MemPostings.Add / addFor with its order repair, then MemPostings.Postings): a label pair whose list already holds 0..3 arbitrary strictly increasing references, one more series with an arbitrary reference (not yet in the list) carrying the same label pair and a second one; the list afterwards is the sorted union, the other label's list holds the new reference, the all-postings list holds it too
//vp:assume inductive step from an arbitrary sorted list (what Add maintains); the new reference is not a duplicate (references are unique per series)
package index

import (
	"context"

	"github.com/prometheus/prometheus/model/labels"
	"github.com/prometheus/prometheus/storage"
)

func vpH_C16_mempostings_add_step() {
	p := NewMemPostings()
	k := vpShape("k", 0, 3)
	old := make([]storage.SeriesRef, k)
	for i := range old {
		old[i] = storage.SeriesRef(vpUint64())
		vpAssume(old[i] >= 1)
		if i > 0 {
			vpAssume(old[i-1] < old[i])
		}
	}
	p.m["a"] = map[string][]storage.SeriesRef{"x": append([]storage.SeriesRef(nil), old...)}
	p.lvs["a"] = []string{"x"}
	p.m[allPostingsKey.Name] = map[string][]storage.SeriesRef{allPostingsKey.Value: append([]storage.SeriesRef(nil), old...)}
	p.lvs[allPostingsKey.Name] = []string{allPostingsKey.Value}
	id := storage.SeriesRef(vpUint64())
	vpAssume(id >= 1)
	for _, o := range old {
		vpAssume(o != id)
	}
	p.Add(id, labels.FromStrings("a", "x", "b", "y"))
	check := func(name, value string, base []storage.SeriesRef, label string) {
		it := p.Postings(context.Background(), name, value)
		var got []storage.SeriesRef
		for it.Next() {
			got = append(got, it.At())
			if len(got) > 5 {
				break
			}
		}
		vpAssert(it.Err() == nil, "no error")
		vpAssert(len(got) == len(base)+1, label+": one more reference")
		if len(got) != len(base)+1 {
			return
		}
		seen := false
		for i, g := range got {
			if i > 0 {
				vpAssert(got[i-1] < g, label+": strictly increasing")
			}
			seen = vpOr(seen, g == id)
			member := g == id
			for _, o := range base {
				member = vpOr(member, g == o)
			}
			vpAssert(member, label+": only the old references and the new one")
		}
		vpAssert(seen, label+": the new reference is listed")
	}
	check("a", "x", old, "shared label pair")
	check("b", "y", nil, "new label pair")
	k1, v1 := AllPostingsKey()
	check(k1, v1, old, "all postings")
	vpReach("end")
}
