//vp:property C16
//vp:pkg ./tsdb
//vp:roots ./tsdb/index ./model/labels ./storage
//vp:bounds label queries on the head through a time-bounded index reader (headIndexReader.LabelValues / SortedLabelValues / LabelNames over MemPostings): one series {a="b"} in the postings, arbitrary head time range [hmin, hmax] and arbitrary reader range [mint, maxt] (any int64 with min <= max); no matchers
//vp:assume label queries on the head are answered from the postings index whenever the reader's closed range overlaps the head's closed range (per-sample filtering is not part of label queries)
package tsdb

import (
	"context"

	"github.com/prometheus/prometheus/model/labels"
	"github.com/prometheus/prometheus/tsdb/index"
)

// The label values / names of the head are returned exactly when the reader's time range overlaps the
// head's time range (closed intervals, touching included).
func vpH_C16_head_label_queries_range() {
	hmin, hmax, mint, maxt := vpInt64(), vpInt64(), vpInt64(), vpInt64()
	vpAssume(vpAnd(hmin <= hmax, mint <= maxt))
	h := &Head{postings: index.NewMemPostings()}
	h.minTime.Store(hmin)
	h.maxTime.Store(hmax)
	h.postings.Add(1, labels.FromStrings("a", "b"))
	r := &headIndexReader{head: h, mint: mint, maxt: maxt}
	overlap := vpAnd(mint <= hmax, maxt >= hmin)
	vals, err := r.LabelValues(context.Background(), "a", nil)
	vpAssert(err == nil, "no error")
	vpObserve("nvals", len(vals))
	vpAssert((len(vals) == 1) == overlap, "label values returned exactly when the ranges overlap")
	svals, err := r.SortedLabelValues(context.Background(), "a", nil)
	vpAssert(err == nil && (len(svals) == 1) == overlap, "sorted label values returned exactly when the ranges overlap")
	names, err := r.LabelNames(context.Background())
	vpAssert(err == nil && (len(names) == 1) == overlap, "label names returned exactly when the ranges overlap")
	if overlap && len(vals) == 1 && len(names) == 1 {
		vpAssert(vals[0] == "b" && names[0] == "a", "values as indexed")
	}
	vpReach("end")
}
