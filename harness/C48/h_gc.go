//vp:property C48
//vp:pkg ./tsdb/agent
//vp:tags verif
//vp:roots ./tsdb/wlog ./tsdb/record ./tsdb/encoding ./model/labels ./model/histogram ./tsdb/chunks ./util/compression io github.com/dennwc/varint
//vp:bounds agent series garbage collection against the checkpoint's retention rule (stripeSeries.GC, SetUnlessAlreadySet, GetByID, GetByHash): 1..2 series with arbitrary last-sample times, arbitrary truncation time mint; a series is dropped exactly when its last sample is older than mint - wlog.Checkpoint keeps every sample with T >= mint, so a series with a retained sample keeps its in-memory entry (and, through the deleted map, its record)
//vp:assume stripe size 1; the checkpoint's sample rule (T >= mint) is read off tsdb/wlog/checkpoint.go, not executed (it works on files)
package agent

import (
	"github.com/prometheus/prometheus/model/labels"
	"github.com/prometheus/prometheus/tsdb/chunks"
)

func vpH_C48_gc_matches_checkpoint_rule() {
	n := vpShape("series", 1, 2)
	ss := newStripeSeries(1)
	var all []*memSeries
	for i := 0; i < n; i++ {
		lset := labels.FromStrings("a", []string{"x", "y"}[i])
		ms := &memSeries{ref: chunks.HeadSeriesRef(i + 1), lset: lset, lastTs: vpInt64()}
		got, created := ss.SetUnlessAlreadySet(lset.Hash(), ms)
		vpAssert(created && got == ms, "series registered")
		all = append(all, ms)
	}
	mint := vpInt64()
	deleted := ss.GC(mint, true)
	for _, ms := range all {
		stale := ms.lastTs < mint // no sample of it survives a checkpoint at mint
		_, del := deleted[ms.ref]
		vpObserve("deleted", del)
		vpAssert(del == stale, "a series is dropped exactly when none of its samples can survive the checkpoint (last sample older than mint)")
		vpAssert((ss.GetByID(ms.ref) == nil) == stale, "lookup by reference agrees")
		vpAssert((ss.GetByHash(ms.lset.Hash(), ms.lset) == nil) == stale, "lookup by labels agrees")
		if del {
			vpAssert(labels.Equal(deleted[ms.ref], ms.lset), "labels of the dropped series are handed to the checkpoint")
		}
	}
	vpReach("end")
}
