//vp:property C48
//vp:pkg ./tsdb/agent
//vp:tags verif
//vp:roots ./tsdb/wlog ./tsdb/record ./tsdb/encoding ./model/labels ./model/histogram ./tsdb/chunks ./util/compression io github.com/dennwc/varint
//vp:budget steps=4000000
//vp:bounds agent appender commit path appenderBase.log over a real wlog.WL writing to an in-memory segment file (wlog.NewForVerif, build tag verif) whose every Write may fail (symbolic fault flags): a batch of 0..1 new series (concrete labels), 0..2 float samples and 0..1 integer histogram with refs/timestamps/counts in [0,64) and arbitrary float value bits; the log is read back with the real wlog.Reader and record.Decoder; admission window arithmetic minValidTime for all int64
//vp:assume record fields small (one varint class; their full ranges are decided under C14); a crash loses what was not passed to Write
package agent

import (
	"bytes"
	"errors"
	"math"
	"os"
	"sync"

	"github.com/prometheus/prometheus/model/histogram"
	"github.com/prometheus/prometheus/model/labels"
	"github.com/prometheus/prometheus/tsdb/chunks"
	"github.com/prometheus/prometheus/tsdb/record"
	"github.com/prometheus/prometheus/tsdb/wlog"
)

var vpXErrWrite = errors.New("write fault")

type vpXFile struct {
	data   []byte
	faults []bool
	calls  int
	failed bool
}

func (f *vpXFile) Stat() (os.FileInfo, error) { return nil, nil }
func (f *vpXFile) Sync() error                { return nil }
func (f *vpXFile) Write(p []byte) (int, error) {
	i := f.calls
	f.calls++
	if i < len(f.faults) && f.faults[i] {
		f.failed = true
		return 0, vpXErrWrite
	}
	f.data = append(f.data, p...)
	return len(p), nil
}
func (f *vpXFile) Read([]byte) (int, error) { return 0, errors.New("write-only") }
func (f *vpXFile) Close() error             { return nil }

func vpXSmallU() uint64 {
	v := vpUint64()
	vpAssume(v < 64)
	return v
}

// If the commit's log step returns nil, every pending series, sample and histogram appears in exactly
// one WAL record, series records first; if a write fails the error is returned.
func vpH_C48_agentLog_order_faults() {
	file := &vpXFile{faults: []bool{vpBool(), vpBool(), vpBool()}}
	db := &DB{opts: &Options{}, wal: wlog.NewForVerif(file, 4), metrics: newDBMetrics(nil)}
	db.bufPool = sync.Pool{New: func() any { return make([]byte, 0, 64) }}
	a := &appenderBase{DB: db}
	nSeries := vpShape("series", 0, 1)
	nSamples := vpShape("samples", 0, 2)
	nHist := vpShape("hists", 0, 1)
	for i := 0; i < nSeries; i++ {
		a.pendingSeries = append(a.pendingSeries, record.RefSeries{Ref: chunks.HeadSeriesRef(vpXSmallU()), Labels: labels.FromStrings("a", "b")})
	}
	for i := 0; i < nSamples; i++ {
		s := &memSeries{ref: chunks.HeadSeriesRef(vpXSmallU())}
		a.pendingSamples = append(a.pendingSamples, record.RefSample{Ref: s.ref, T: int64(vpXSmallU()), V: vpFloat64()})
		a.sampleSeries = append(a.sampleSeries, s)
	}
	for i := 0; i < nHist; i++ {
		s := &memSeries{ref: chunks.HeadSeriesRef(vpXSmallU())}
		a.pendingHistograms = append(a.pendingHistograms, record.RefHistogramSample{Ref: s.ref, T: int64(vpXSmallU()), H: &histogram.Histogram{Count: vpXSmallU(), Sum: 1}})
		a.histogramSeries = append(a.histogramSeries, s)
	}
	err := a.log()
	vpObserve("err", err != nil)
	if err != nil {
		vpAssert(file.failed, "log fails only when a write to the WAL failed")
		vpReach("fault reported")
		return
	}
	vpAssert(!file.failed, "a successful log saw no failed write")
	// read the log back with the real reader and decoder
	r := wlog.NewReader(bytes.NewReader(file.data))
	var dec record.Decoder
	stage := 0 // series, then samples, then histograms
	gotSeries, gotSamples, gotHists := 0, 0, 0
	for r.Next() {
		rec := r.Record()
		switch dec.Type(rec) {
		case record.Series:
			vpAssert(stage == 0, "series records precede the samples that reference them")
			ss, derr := dec.Series(rec, nil)
			vpAssert(derr == nil, "series record decodes")
			for _, s := range ss {
				vpAssert(gotSeries < nSeries && s.Ref == a.pendingSeries[gotSeries].Ref && labels.Equal(s.Labels, a.pendingSeries[gotSeries].Labels), "series as pending")
				gotSeries++
			}
		case record.Samples:
			vpAssert(stage <= 1, "record order")
			stage = 1
			ss, derr := dec.Samples(rec, nil)
			vpAssert(derr == nil, "sample record decodes")
			for _, s := range ss {
				vpAssert(gotSamples < nSamples, "no extra sample")
				if gotSamples < nSamples {
					w := a.pendingSamples[gotSamples]
					vpAssert(s.Ref == w.Ref && s.T == w.T && math.Float64bits(s.V) == math.Float64bits(w.V), "sample as pending")
				}
				gotSamples++
			}
		case record.HistogramSamples:
			stage = 2
			hs, derr := dec.HistogramSamples(rec, nil)
			vpAssert(derr == nil, "histogram record decodes")
			for _, h := range hs {
				vpAssert(gotHists < nHist, "no extra histogram")
				if gotHists < nHist {
					w := a.pendingHistograms[gotHists]
					vpAssert(h.Ref == w.Ref && h.T == w.T && h.H.Count == w.H.Count, "histogram as pending")
				}
				gotHists++
			}
		default:
			vpAssert(false, "unexpected record type")
		}
	}
	vpAssert(r.Err() == nil, "log readable to its end")
	vpAssert(gotSeries == nSeries && gotSamples == nSamples && gotHists == nHist, "every pending item was logged exactly once")
	vpReach("logged")
}

// Admission window: a sample is too old iff t < lastTs - window, computed without overflow.
func vpH_C48_agent_minValidTime() {
	lastTs, window := vpInt64(), vpInt64()
	vpAssume(window >= 0)
	a := &appenderBase{DB: &DB{opts: &Options{OutOfOrderTimeWindow: window}}}
	got := a.minValidTime(lastTs)
	vpObserve("got", got)
	// reference in wider arithmetic: max(MinInt64, lastTs - window); both operands are known, so split on the sign
	if lastTs >= 0 {
		// lastTs - window cannot underflow below MinInt64 + 1
		vpAssert(got == lastTs-window, "no clamping needed")
	} else if window <= lastTs-math.MinInt64 {
		vpAssert(got == lastTs-window, "difference representable")
	} else {
		vpAssert(got == math.MinInt64, "clamped at the minimum instead of wrapping")
	}
	vpReach("end")
}
