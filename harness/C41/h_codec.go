//vp:property C41
//vp:pkg ./prompb/io/prometheus/write/v2
//vp:roots ./model/histogram
//vp:bounds remote-write 2.0 histogram codec: FromIntHistogram/ToIntHistogram and FromFloatHistogram/ToFloatHistogram on histograms with <=2 spans and <=2 buckets per side, every scalar field symbolic (schema incl. the custom-bucket schema with <=2 custom bounds, counter-reset hint, zero threshold/count, count, sum, span offsets/lengths, bucket values, timestamp, start timestamp)
//vp:assume custom-bucket histograms carry no zero bucket and no negative side (Histogram.Validate)
package writev2

import (
	"math"

	"github.com/prometheus/prometheus/model/histogram"
)

func vpXSpans(name string) []histogram.Span {
	n := vpShape(name, 0, 2)
	s := make([]histogram.Span, n)
	for i := range s {
		s[i] = histogram.Span{Offset: vpInt32(), Length: vpUint32()}
	}
	return s
}

func vpXSameSpans(a, b []histogram.Span) bool {
	if len(a) != len(b) {
		return false
	}
	ok := true
	for i := range a {
		ok = vpAnd(ok, vpAnd(a[i].Offset == b[i].Offset, a[i].Length == b[i].Length))
	}
	return ok
}

func vpH_C41_hist_codec() {
	h := &histogram.Histogram{
		CounterResetHint: histogram.CounterResetHint(vpUint8() & 3),
		Schema:           vpInt32(),
		ZeroThreshold:    vpFloat64(),
		ZeroCount:        vpUint64(),
		Count:            vpUint64(),
		Sum:              vpFloat64(),
		PositiveSpans:    vpXSpans("pspans"),
		NegativeSpans:    vpXSpans("nspans"),
	}
	for i := 0; i < vpShape("pb", 0, 2); i++ {
		h.PositiveBuckets = append(h.PositiveBuckets, vpInt64())
	}
	for i := 0; i < vpShape("nb", 0, 2); i++ {
		h.NegativeBuckets = append(h.NegativeBuckets, vpInt64())
	}
	if vpShape("custom", 0, 1) == 1 {
		h.Schema = histogram.CustomBucketsSchema
		h.ZeroThreshold, h.ZeroCount = 0, 0
		h.NegativeSpans, h.NegativeBuckets = nil, nil
		for i := 0; i < vpShape("cv", 0, 2); i++ {
			h.CustomValues = append(h.CustomValues, vpFloat64())
		}
	} else {
		vpAssume(h.Schema != histogram.CustomBucketsSchema)
	}
	st, ts := vpInt64(), vpInt64()
	p := FromIntHistogram(st, ts, h)
	vpAssert(p.Timestamp == ts, "timestamp")
	vpAssert(!p.IsFloatHistogram(), "integer histogram flag")
	g := p.ToIntHistogram()
	vpObserve("schema", g.Schema)
	vpObserve("count", g.Count)
	vpAssert(g.CounterResetHint == h.CounterResetHint, "counter reset hint")
	vpAssert(g.Schema == h.Schema, "schema")
	vpAssert(math.Float64bits(g.ZeroThreshold) == math.Float64bits(h.ZeroThreshold), "zero threshold bits")
	vpAssert(g.ZeroCount == h.ZeroCount && g.Count == h.Count, "counts")
	vpAssert(math.Float64bits(g.Sum) == math.Float64bits(h.Sum), "sum bits")
	vpAssert(vpXSameSpans(g.PositiveSpans, h.PositiveSpans) && vpXSameSpans(g.NegativeSpans, h.NegativeSpans), "spans")
	vpAssert(len(g.PositiveBuckets) == len(h.PositiveBuckets) && len(g.NegativeBuckets) == len(h.NegativeBuckets), "bucket counts")
	if len(g.PositiveBuckets) == len(h.PositiveBuckets) && len(g.NegativeBuckets) == len(h.NegativeBuckets) {
		for i := range h.PositiveBuckets {
			vpAssert(g.PositiveBuckets[i] == h.PositiveBuckets[i], "positive bucket")
		}
		for i := range h.NegativeBuckets {
			vpAssert(g.NegativeBuckets[i] == h.NegativeBuckets[i], "negative bucket")
		}
	}
	vpAssert(len(g.CustomValues) == len(h.CustomValues), "custom bound count")
	if len(g.CustomValues) == len(h.CustomValues) {
		for i := range h.CustomValues {
			vpAssert(math.Float64bits(g.CustomValues[i]) == math.Float64bits(h.CustomValues[i]), "custom bound bits")
		}
	}
	vpReach("end")
}

func vpH_C41_fhist_codec() {
	h := &histogram.FloatHistogram{
		CounterResetHint: histogram.CounterResetHint(vpUint8() & 3),
		Schema:           vpInt32(),
		ZeroThreshold:    vpFloat64(),
		ZeroCount:        vpFloat64(),
		Count:            vpFloat64(),
		Sum:              vpFloat64(),
		PositiveSpans:    vpXSpans("pspans"),
		NegativeSpans:    vpXSpans("nspans"),
	}
	for i := 0; i < vpShape("pb", 0, 2); i++ {
		h.PositiveBuckets = append(h.PositiveBuckets, vpFloat64())
	}
	for i := 0; i < vpShape("nb", 0, 2); i++ {
		h.NegativeBuckets = append(h.NegativeBuckets, vpFloat64())
	}
	if vpShape("custom", 0, 1) == 1 {
		h.Schema = histogram.CustomBucketsSchema
		h.ZeroThreshold, h.ZeroCount = 0, 0
		h.NegativeSpans, h.NegativeBuckets = nil, nil
		for i := 0; i < vpShape("cv", 0, 2); i++ {
			h.CustomValues = append(h.CustomValues, vpFloat64())
		}
	} else {
		vpAssume(h.Schema != histogram.CustomBucketsSchema)
	}
	st, ts := vpInt64(), vpInt64()
	p := FromFloatHistogram(st, ts, h)
	vpAssert(p.Timestamp == ts, "timestamp")
	vpAssert(p.IsFloatHistogram(), "float histogram flag")
	g := p.ToFloatHistogram()
	same := func(a, b float64) bool { return math.Float64bits(a) == math.Float64bits(b) }
	vpObserve("schema", g.Schema)
	vpAssert(g.CounterResetHint == h.CounterResetHint, "counter reset hint")
	vpAssert(g.Schema == h.Schema, "schema")
	vpAssert(same(g.ZeroThreshold, h.ZeroThreshold) && same(g.ZeroCount, h.ZeroCount) && same(g.Count, h.Count) && same(g.Sum, h.Sum), "scalar fields bit for bit")
	vpAssert(vpXSameSpans(g.PositiveSpans, h.PositiveSpans) && vpXSameSpans(g.NegativeSpans, h.NegativeSpans), "spans")
	vpAssert(len(g.PositiveBuckets) == len(h.PositiveBuckets) && len(g.NegativeBuckets) == len(h.NegativeBuckets), "bucket counts")
	if len(g.PositiveBuckets) == len(h.PositiveBuckets) && len(g.NegativeBuckets) == len(h.NegativeBuckets) {
		for i := range h.PositiveBuckets {
			vpAssert(same(g.PositiveBuckets[i], h.PositiveBuckets[i]), "positive bucket bits")
		}
		for i := range h.NegativeBuckets {
			vpAssert(same(g.NegativeBuckets[i], h.NegativeBuckets[i]), "negative bucket bits")
		}
	}
	vpAssert(len(g.CustomValues) == len(h.CustomValues), "custom bound count")
	vpReach("end")
}
