//vp:property C41
//vp:pkg ./prompb/io/prometheus/write/v2
//vp:roots ./model/histogram
//vp:bounds sender-side wire encoding of a remote-write 2.0 series (TimeSeries.OptimizedMarshalToSizedBuffer, the hand-written in-place varint packing of label references, against the generated TimeSeries.Marshal and TimeSeries.Unmarshal): 0..2 label references, each of bit length 0, 1, 7, 8, 14, 15, 21, 22, 28, 29 or 32 with arbitrary lower bits (both sides of every varint size boundary), one sample with concrete value and timestamp
//vp:assume differential oracle: the generated gogo-proto Marshal/Unmarshal are the reference for the wire format
package writev2

func vpH_C41_labelrefs_wire() {
	n := vpShape("refs", 0, 2)
	ts := &TimeSeries{Samples: []Sample{{Value: 1.5, Timestamp: 1000}}}
	for i := 0; i < n; i++ {
		// bit length of the reference fixed by the case split (both sides of every varint size boundary), lower bits arbitrary
		L := []uint{0, 1, 7, 8, 14, 15, 21, 22, 28, 29, 32}[vpShape("bitlen", 0, 10)]
		var r uint32
		if L > 0 {
			top := uint32(1) << (L - 1)
			r = top | (vpUint32() & (top - 1))
		}
		ts.LabelsRefs = append(ts.LabelsRefs, r)
	}
	want, err := ts.Marshal()
	vpAssert(err == nil, "generated Marshal succeeds")
	siz := ts.Size()
	buf := make([]byte, siz)
	k, err := ts.OptimizedMarshalToSizedBuffer(buf)
	vpAssert(err == nil, "optimized marshal succeeds")
	vpObserve("size", k)
	vpAssert(k == siz && k == len(want), "encoded size equals Size()")
	if k != len(want) || k != siz {
		return
	}
	for i := range want {
		vpAssert(buf[i] == want[i], "optimized encoding is byte-identical to the generated one")
	}
	var back TimeSeries
	vpAssert(back.Unmarshal(buf) == nil, "the bytes decode")
	vpAssert(len(back.LabelsRefs) == n, "number of label references")
	if len(back.LabelsRefs) == n {
		for i := range back.LabelsRefs {
			vpAssert(back.LabelsRefs[i] == ts.LabelsRefs[i], "label references survive the wire")
		}
	}
	vpReach("end")
}
