//vp:property C46
//vp:pkg ./notifier
//vp:bounds sendLoop.add / nextBatch as a sequential queue: capacity 1..3 and maximum batch size 1..3 symbolic, schedule add(n1) [nextBatch] add(n2) then drain with n1, n2 in 0..4 distinct alerts; compared batch by batch with a reference queue written from the property (append; drop from the front while over capacity; a batch is the first min(max, len) alerts)
//vp:assume single-threaded use (mutex no-op); the 'stopped' channel is never closed; the dropped-alerts metric is not observed (metrics are stubs in the engine)
package notifier

import (
	"log/slog"
)

func vpH_C46_queue_history() {
	capN := vpInt()
	batch := vpInt()
	vpAssume(vpAnd(capN >= 1, capN <= 3))
	vpAssume(vpAnd(batch >= 1, batch <= 3))
	capN = vpConcretize(capN)
	batch = vpConcretize(batch)
	m := newAlertMetrics(nil, func() float64 { return 0 })
	s := newSendLoop("am", nil, nil, &Options{QueueCapacity: capN, MaxBatchSize: batch}, slog.New(slog.DiscardHandler), m)

	var logical []*Alert // everything ever added, in order
	var ref []*Alert     // reference queue
	var got, want [][]*Alert

	add := func(n int) {
		as := make([]*Alert, n)
		for i := range as {
			as[i] = &Alert{}
		}
		s.add(as...)
		logical = append(logical, as...)
		ref = append(ref, as...)
		for len(ref) > capN {
			ref = ref[1:]
		}
	}
	next := func() int {
		b := s.nextBatch()
		got = append(got, b)
		k := len(ref)
		if k > batch {
			k = batch
		}
		want = append(want, ref[:k])
		ref = ref[k:]
		return len(b)
	}

	add(vpShape("n1", 0, 4))
	if vpShape("mid", 0, 1) == 1 {
		next()
	}
	add(vpShape("n2", 0, 4))
	for i := 0; i < 6; i++ {
		if next() == 0 {
			break
		}
	}
	for i := range got {
		vpObserve("batchlen", len(got[i]))
		vpAssert(len(got[i]) <= batch, "batch no larger than the maximum")
		vpAssert(len(got[i]) == len(want[i]), "batch size as in the reference queue")
		if len(got[i]) == len(want[i]) {
			for j := range got[i] {
				vpAssert(got[i][j] == want[i][j], "alerts delivered in order, only the oldest dropped")
			}
		}
	}
	vpAssert(len(s.queue) == 0, "queue drained")
	vpReach("end")
}
