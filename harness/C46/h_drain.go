//vp:property C46
//vp:pkg ./notifier
//vp:intercept (*github.com/prometheus/prometheus/notifier.sendLoop).sendAll => vpXSendAll
//vp:bounds draining on shutdown (sendLoop.drainQueue / sendOneBatch / nextBatch): queue capacity 4, maximum batch size 1..3, 0..4 queued alerts, every delivery outcome schedule over the first 4 batches (each succeeds or fails, symbolic); every queued alert is attempted exactly once, in order, in batches no larger than the maximum, whatever fails
//vp:assume in the engine sendLoop.sendAll (JSON encoding + HTTP) is replaced by a stub that records the batch and fails on schedule; the native replay runs the real sendAll with Options.Do set to a function that counts the alerts in the request body and answers 200/500 on the same schedule
package notifier

import (
	"context"
	"encoding/json"
	"io"
	"log/slog"
	"net/http"
	"strings"
	"time"

	"github.com/prometheus/common/model"

	"github.com/prometheus/prometheus/config"
)

var (
	vpXAttempts []int
	vpXFail     []bool
)

func vpXAttempt(n int) bool {
	k := len(vpXAttempts)
	vpXAttempts = append(vpXAttempts, n)
	return !(k < len(vpXFail) && vpXFail[k])
}

func vpXSendAll(s *sendLoop, alerts []*Alert) bool {
	if len(alerts) == 0 {
		return true
	}
	return vpXAttempt(len(alerts))
}

func vpXDo(_ context.Context, _ *http.Client, req *http.Request) (*http.Response, error) {
	body, _ := io.ReadAll(req.Body)
	var arr []any
	_ = json.Unmarshal(body, &arr)
	status := 200
	if !vpXAttempt(len(arr)) {
		status = 500
	}
	return &http.Response{StatusCode: status, Status: http.StatusText(status), Body: io.NopCloser(strings.NewReader(""))}, nil
}

func vpH_C46_drain_attempts_all() {
	vpXAttempts, vpXFail = nil, []bool{vpBool(), vpBool(), vpBool(), vpBool()}
	batch := vpShape("batch", 1, 3)
	n := vpShape("queued", 0, 4)
	m := newAlertMetrics(nil, func() float64 { return 0 })
	cfg := &config.AlertmanagerConfig{APIVersion: config.AlertmanagerAPIVersionV2, Timeout: model.Duration(time.Second)}
	s := newSendLoop("http://am.invalid/api/v2/alerts", &http.Client{}, cfg, &Options{QueueCapacity: 4, MaxBatchSize: batch, DrainOnShutdown: true, Do: vpXDo}, slog.New(slog.DiscardHandler), m)
	as := make([]*Alert, n)
	for i := range as {
		as[i] = &Alert{}
	}
	s.add(as...)
	s.drainQueue()
	total := 0
	for _, a := range vpXAttempts {
		vpAssert(a >= 1 && a <= batch, "batches no larger than the maximum")
		total += a
	}
	vpObserve("batches", len(vpXAttempts))
	vpObserve("attempted", total)
	vpAssert(total == n, "every queued alert is attempted exactly once before the drain completes, whatever fails")
	vpAssert(len(vpXAttempts) == (n+batch-1)/batch, "full batches first")
	vpAssert(len(s.queue) == 0, "queue empty after the drain")
	vpReach("end")
}
